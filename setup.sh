#!/bin/sh
# Build the symbolic executor offline (go1.26.8 + x/tools v0.50.0 from the module cache).
set -e
cd "$(dirname "$0")/engine"
export GOFLAGS=-mod=mod GOPROXY=off GOTOOLCHAIN=local CGO_ENABLED=0
mkdir -p ../bin ../evidence ../replays
go1.26.8 build -o ../bin/gosym .
echo "gosym built"
