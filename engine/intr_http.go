package main

// Atlas / HTTP boundary. Contracts (reported in the evidence):
//
//	http.NewRequestWithContext  builds a request for a well-formed URL
//	(*http.Client).Do            one RoundTrip of the client's transport, no redirects; when the transport is a
//	                             digest.Transport: an unauthenticated request to the base transport, and - iff the
//	                             answer is a 401 carrying a Digest challenge - one authenticated retry whose
//	                             Authorization header uses the password only inside the digest hash (md5hex)
//	connstring.Parse            arbitrary scheme and host list chosen by the job (hosts with or without port)
//	net.SplitHostPort           host:port of the Parse stub's hosts; "missing port" error when there is no port
//	json.Unmarshal(body,&info)  the standard connection string is an arbitrary function of the body
//	io.ReadAll / io.Copy        deliver the scripted body, or fail after a prefix

import (
	"fmt"
	"go/types"
	"net/textproto"
	"regexp"
	"strings"

	"golang.org/x/tools/go/ssa"
)

const digestPkg = "github.com/mongodb-forks/digest"
const connPkg = "go.mongodb.org/mongo-driver/x/mongo/driver/connstring"

type httpState struct {
	urls map[*Value]Str
}

func (m *Machine) http() *httpState {
	if m.httpSt == nil {
		m.httpSt = &httpState{urls: map[*Value]Str{}}
	}
	return m.httpSt
}

func structFieldByName(t types.Type, st Struct, name string) *Value {
	stt := t.Underlying().(*types.Struct)
	return &st[fieldIndex(stt, name)]
}

func (m *Machine) harnessBody(r Iface) (Struct, *types.Struct, bool) {
	if r.t == nil {
		return nil, nil, false
	}
	if pt, ok := r.t.Underlying().(*types.Pointer); ok {
		if named, ok := pt.Elem().(*types.Named); ok && named.Obj().Name() == "verifBody" {
			p := r.v.(*Value)
			return (*p).(Struct), named.Underlying().(*types.Struct), true
		}
	}
	return nil, nil, false
}

func registerHTTP(e *Engine) {
	in := e.intrinsics
	reqT := func() types.Type { return e.namedType("net/http", "Request") }
	globalOverrides["net/http.DefaultClient"] = func(m *Machine) Value {
		cell := new(Value)
		*cell = zero(e.namedType("net/http", "Client"))
		return cell
	}
	globalOverrides["net/http.DefaultTransport"] = func(m *Machine) Value {
		return Iface{t: types.NewPointer(e.namedType("net/http", "Transport")), v: &Opaque{kind: "realTransport"}}
	}
	in["context.Background"] = func(m *Machine, fr *frame, a []Value) Value { return Iface{} }
	in["net/http.NewRequestWithContext"] = func(m *Machine, fr *frame, a []Value) Value {
		st := zero(reqT()).(Struct)
		*structFieldByName(reqT(), st, "Method") = a[1]
		*structFieldByName(reqT(), st, "Header") = newMap()
		cell := new(Value)
		*cell = st
		m.http().urls[cell] = argStr(a[2])
		return Tuple{cell, Iface{}}
	}
	canon := func(v Value) Str {
		s := argStr(v)
		if c, ok := s.Const(); ok {
			return mkStr(textproto.CanonicalMIMEHeaderKey(c))
		}
		return s
	}
	in["(net/http.Header).Set"] = func(m *Machine, fr *frame, a []Value) Value {
		mv := a[0].(*MapV)
		m.mapUpdate(mv, canon(a[1]), mkStrSlice([]Str{argStr(a[2])}))
		return nil
	}
	in["(net/http.Header).Get"] = func(m *Machine, fr *frame, a []Value) Value {
		mv, _ := a[0].(*MapV)
		if mv == nil {
			return Str{}
		}
		v, ok := m.mapLookup(mv, canon(a[1]), types.NewSlice(types.Typ[types.String]))
		if okb, isB := ok.(bool); isB && okb {
			if sl := v.(Slice); sl.len > 0 {
				return (*sl.At(0)).(Str)
			}
		}
		return Str{}
	}
	in["(*net/http.Request).Context"] = func(m *Machine, fr *frame, a []Value) Value { return Iface{} }
	cloneReq := func(m *Machine, req *Value) *Value {
		st2 := copyVal((*req).(Struct)).(Struct)
		oldH, _ := (*structFieldByName(reqT(), st2, "Header")).(*MapV)
		nh := newMap()
		if oldH != nil {
			m.flushPending(oldH)
			for _, en := range oldH.entries {
				if !en.deleted {
					nh.addEntry(en.k, copyVal(*en.v))
				}
			}
		}
		*structFieldByName(reqT(), st2, "Header") = nh
		cell := new(Value)
		*cell = st2
		m.http().urls[cell] = m.http().urls[req]
		return cell
	}
	in["(*net/http.Request).Clone"] = func(m *Machine, fr *frame, a []Value) Value { return cloneReq(m, a[0].(*Value)) }
	in["(*net/http.Request).WithContext"] = func(m *Machine, fr *frame, a []Value) Value { return cloneReq(m, a[0].(*Value)) }
	in["(*net/http.Request).SetBasicAuth"] = func(m *Machine, fr *frame, a []Value) Value {
		req := a[0].(*Value)
		hdr := (*structFieldByName(reqT(), (*req).(Struct), "Header")).(*MapV)
		cred := strConcat(strConcat(argStr(a[1]), mkStr(":")), argStr(a[2]))
		m.mapUpdate(hdr, mkStr("Authorization"), mkStrSlice([]Str{strConcat(mkStr("Basic "), mkStrT(TUF("b64", SStr, cred.Term())))}))
		return nil
	}
	// harness accessors
	in[mainPath+".verifReqURL"] = func(m *Machine, fr *frame, a []Value) Value {
		req, _ := a[0].(*Value)
		if u, ok := m.http().urls[req]; ok {
			return u
		}
		panic(abort("verifReqURL: unknown request"))
	}
	in[mainPath+".verifReqHeaders"] = func(m *Machine, fr *frame, a []Value) Value {
		req := a[0].(*Value)
		hdr, _ := (*structFieldByName(reqT(), (*req).(Struct), "Header")).(*MapV)
		var out Str
		if hdr != nil {
			m.flushPending(hdr)
			for _, en := range hdr.entries {
				if en.deleted {
					continue
				}
				out = strConcat(out, en.k.(Str))
				out = strConcat(out, mkStr("="))
				sl := (*en.v).(Slice)
				for i := 0; i < sl.len; i++ {
					out = strConcat(out, (*sl.At(i)).(Str))
				}
				out = strConcat(out, mkStr(";"))
			}
		}
		return out
	}
	roundTrip := func(m *Machine, fr *frame, rt Iface, req *Value) (Value, Iface) {
		if rt.t == nil {
			panic(abort("http: nil base transport"))
		}
		if o, ok := rt.v.(*Opaque); ok && o != nil && o.kind == "realTransport" {
			m.events = append(m.events, Event{Kind: "real-network", Args: []Value{m.http().urls[req]}})
			panic(abort("request handed to the real network transport"))
		}
		f := m.prog.LookupMethod(rt.t, nil, "RoundTrip")
		if f == nil {
			panic(abort(fmt.Sprintf("no RoundTrip on %v", rt.t)))
		}
		r := m.callSSA(fr, 0, f, []Value{rt.v, req}, nil).(Tuple)
		return r[0], r[1].(Iface)
	}
	in["(*net/http.Client).Do"] = func(m *Machine, fr *frame, a []Value) Value {
		cl := a[0].(*Value)
		req := a[1].(*Value)
		clT := e.namedType("net/http", "Client")
		tr := (*structFieldByName(clT, (*cl).(Struct), "Transport")).(Iface)
		if tr.t == nil {
			panic(abort("http.Client without transport: real network"))
		}
		m.events = append(m.events, Event{Kind: "http.do", Args: []Value{m.http().urls[req]}})
		resp, err := roundTrip(m, fr, tr, req)
		return Tuple{resp, err}
	}
	globalOverrides[digestPkg+".ErrBadChallenge"] = func(m *Machine) Value { return m.newError(mkStr("challenge is bad")) }
	globalOverrides[digestPkg+".ErrNilTransport"] = func(m *Machine) Value { return m.newError(mkStr("transport is nil")) }
	in["(*"+digestPkg+".Transport).RoundTrip"] = func(m *Machine, fr *frame, a []Value) Value {
		dT := e.namedType(digestPkg, "Transport")
		dp, _ := a[0].(*Value)
		if dp == nil {
			panic(targetPanic{runtime: "invalid memory address or nil pointer dereference (nil *digest.Transport)"})
		}
		req := a[1].(*Value)
		dst := (*dp).(Struct)
		user := (*structFieldByName(dT, dst, "Username")).(Str)
		pass := (*structFieldByName(dT, dst, "Password")).(Str)
		base := (*structFieldByName(dT, dst, "Transport")).(Iface)
		gerr := func(name string) Iface {
			p := m.global(m.prog.ImportedPackage(digestPkg).Var(name)).(*Value)
			return (*p).(Iface)
		}
		if base.t == nil {
			return Tuple{(*Value)(nil), gerr("ErrNilTransport")}
		}
		m.note("contract: digest.Transport sends the request unauthenticated first; a 401 with a Digest challenge is answered by one authenticated retry whose Authorization header uses the password only inside the digest hash; a 401 with another challenge yields ErrBadChallenge; anything else is passed through")
		resp, err := roundTrip(m, fr, base, req)
		if err.t != nil {
			return Tuple{resp, err}
		}
		rp, _ := resp.(*Value)
		if rp == nil {
			return Tuple{resp, err}
		}
		respT := e.namedType("net/http", "Response")
		rst := (*rp).(Struct)
		status := (*structFieldByName(respT, rst, "StatusCode")).(Num)
		if status.t != nil || status.c != 401 {
			return Tuple{resp, err}
		}
		hdr, _ := (*structFieldByName(respT, rst, "Header")).(*MapV)
		challenge := Str{}
		if hdr != nil {
			v, ok := m.mapLookup(hdr, mkStr("Www-Authenticate"), types.NewSlice(types.Typ[types.String]))
			if okb, isB := ok.(bool); isB && okb {
				if sl := v.(Slice); sl.len > 0 {
					challenge = (*sl.At(0)).(Str)
				}
			}
		}
		cc, constCh := challenge.Const()
		if !constCh {
			panic(abort("digest: symbolic challenge"))
		}
		if cc == "" {
			return Tuple{resp, err}
		}
		if !strings.HasPrefix(cc, "Digest ") {
			return Tuple{(*Value)(nil), gerr("ErrBadChallenge")}
		}
		// authenticated retry: a copy of the request with the digest response
		st2 := copyVal((*req).(Struct)).(Struct)
		oldH, _ := (*structFieldByName(reqT(), st2, "Header")).(*MapV)
		nh := newMap()
		if oldH != nil {
			m.flushPending(oldH)
			for _, en := range oldH.entries {
				if !en.deleted {
					nh.addEntry(en.k, copyVal(*en.v))
				}
			}
		}
		auth := strConcat(strConcat(mkStr(`Digest username="`), user), mkStr(`", response="`))
		auth = strConcat(auth, mkStrT(TUF("md5hex", SStr, user.Term(), pass.Term(), TStr(cc), m.http().urls[req].Term())))
		auth = strConcat(auth, mkStr(`"`))
		nh.addEntry(mkStr("Authorization"), mkStrSlice([]Str{auth}))
		*structFieldByName(reqT(), st2, "Header") = nh
		cell := new(Value)
		*cell = st2
		m.http().urls[cell] = m.http().urls[req]
		resp2, err2 := roundTrip(m, fr, base, cell)
		return Tuple{resp2, err2}
	}
	in["errors.Is"] = func(m *Machine, fr *frame, a []Value) Value {
		cur, target := a[0].(Iface), a[1].(Iface)
		for depth := 0; depth < 8; depth++ {
			if cur.t == nil {
				return target.t == nil
			}
			if target.t != nil && types.Identical(cur.t, target.t) {
				if pa, ok := cur.v.(*Value); ok {
					if pb, ok := target.v.(*Value); ok && pa == pb {
						return true
					}
				}
			}
			sel := m.prog.MethodSets.MethodSet(cur.t).Lookup(nil, "Unwrap")
			if sel == nil {
				return false
			}
			f := m.prog.MethodValue(sel)
			if f == nil {
				return false
			}
			next, ok := m.callSSA(fr, 0, f, []Value{cur.v}, nil).(Iface)
			if !ok {
				return false
			}
			cur = next
		}
		return false
	}
	in[mainPath+".verifGzipErrHeader"] = func(m *Machine, fr *frame, a []Value) Value {
		p := m.global(m.prog.ImportedPackage("compress/gzip").Var("ErrHeader")).(*Value)
		return *p
	}
	globalOverrides["compress/gzip.ErrHeader"] = func(m *Machine) Value { return m.newError(mkStr("gzip: invalid header")) }
	globalOverrides["compress/gzip.ErrChecksum"] = func(m *Machine) Value { return m.newError(mkStr("gzip: invalid checksum")) }
	// bodies
	in["io.ReadAll"] = func(m *Machine, fr *frame, a []Value) Value {
		st, stt, ok := m.harnessBody(a[0].(Iface))
		if !ok {
			return realCode{}
		}
		content := st[fieldIndex(stt, "content")].(Str)
		berr := st[fieldIndex(stt, "err")].(Iface)
		if berr.t != nil {
			return Tuple{Slice{}, berr}
		}
		c := content
		return Tuple{Slice{rope: &c}, Iface{}}
	}
	in["io.Copy"] = func(m *Machine, fr *frame, a []Value) Value {
		st, stt, ok := m.harnessBody(a[1].(Iface))
		if !ok {
			return realCode{}
		}
		dst := a[0].(Iface)
		content := st[fieldIndex(stt, "content")].(Str)
		berr := st[fieldIndex(stt, "err")].(Iface)
		if o, ok := dst.v.(*Opaque); ok && o != nil && o.kind == "file" {
			f := o.data.(*fileObj)
			if berr.t != nil {
				// connection cut mid-body: a prefix reaches the file, then the error
				m.atomSeq++
				pre := mkStrT(TVar(fmt.Sprintf("bodyprefix!%d", m.atomSeq), SStr))
				m.events = append(m.events, Event{Kind: "write", Args: []Value{f.name, pre, mkStr("")}})
				return Tuple{Num{t: TLen(pre.Term())}, berr}
			}
			m.events = append(m.events, Event{Kind: "write", Args: []Value{f.name, content, mkStr("")}})
			return Tuple{lenOfStr(content), Iface{}}
		}
		return realCode{}
	}
	in["encoding/json.Unmarshal"] = func(m *Machine, fr *frame, a []Value) Value {
		body := sliceToStr(a[0].(Slice))
		target := a[1].(Iface)
		pt, ok := target.t.Underlying().(*types.Pointer)
		if !ok {
			panic(abort("json.Unmarshal into non-pointer"))
		}
		named, _ := pt.Elem().(*types.Named)
		if named == nil || named.Obj().Name() != "AtlasClusterInfo" {
			panic(abort("json.Unmarshal into " + target.t.String()))
		}
		bad := m.choose(2, nil)
		m.recordInput("cs.jsonbad", Num{c: int64(bad)})
		if bad == 1 {
			return m.newError(mkStr("invalid character in cluster description"))
		}
		cell := target.v.(*Value)
		st := (*cell).(Struct)
		outer := named.Underlying().(*types.Struct)
		csI := fieldIndex(outer, "ConnectionStrings")
		inner := st[csI].(Struct)
		innerT := outer.Field(csI).Type().Underlying().(*types.Struct)
		inner[fieldIndex(innerT, "Standard")] = mkStrT(TUF("json.standard", SStr, body.Term()))
		inner[fieldIndex(innerT, "StandardSrv")] = mkStrT(TUF("json.standardSrv", SStr, body.Term()))
		m.note("contract: json.Unmarshal fills connectionStrings.standard with a function of the response body")
		return Iface{}
	}
	in[connPkg+".Parse"] = func(m *Machine, fr *frame, a []Value) Value {
		src := argStr(a[0])
		t := e.namedType(connPkg, "ConnString")
		if m.job.Params["cs.mayFail"] == "yes" && m.choose(2, nil) == 1 {
			m.recordInput("cs.fail", Num{c: 1})
			return Tuple{(*Value)(nil), m.newError(mkStr("error parsing uri"))}
		}
		m.recordInput("cs.fail", Num{c: 0})
		st := zero(t).(Struct)
		srv := m.choose(2, nil)
		m.recordInput("cs.srv", Num{c: int64(srv)})
		scheme := "mongodb"
		if srv == 1 {
			scheme = "mongodb+srv"
		}
		*structFieldByName(t, st, "Scheme") = mkStr(scheme)
		*structFieldByName(t, st, "Original") = src
		maxHosts := 2
		if m.job.Params["cs.maxHosts"] == "3" {
			maxHosts = 3
		}
		n := 1
		if srv == 0 {
			n = 1 + m.choose(maxHosts, nil)
		}
		m.recordInput("cs.n", Num{c: int64(n)})
		var hosts []Str
		for i := 0; i < n; i++ {
			h := mkStrT(TVar(fmt.Sprintf("host%d", i), SStr))
			m.recordInput(fmt.Sprintf("host%d", i), h)
			// host names are DNS names (stated bound; keeps native requests well-formed)
			hre := regexp.MustCompile(`^[a-z0-9]([a-z0-9.-]*[a-z0-9])?$`)
			_ = hre
			m.addPC(TUF(fmt.Sprintf("re#%d", e.regexID(`^[a-z0-9]([a-z0-9.-]*[a-z0-9])?$`)), SBool, h.Term()))
			m.prefs[h.Term()] = fmt.Sprintf("node-%c.example.net", 'b'-byte(i)+2)
			withPort := 0
			if srv == 0 {
				withPort = m.choose(2, nil)
			}
			m.recordInput(fmt.Sprintf("host%d.port", i), Num{c: int64(withPort)})
			if withPort == 1 {
				hosts = append(hosts, strConcat(h, mkStr(":27017")))
			} else {
				hosts = append(hosts, h)
			}
		}
		*structFieldByName(t, st, "Hosts") = mkStrSlice(hosts)
		cell := new(Value)
		*cell = st
		m.note("contract: connstring.Parse yields a scheme and a host list (1.." + fmt.Sprint(maxHosts) + " hosts, each with or without a port)")
		return Tuple{cell, Iface{}}
	}
	in["net.SplitHostPort"] = func(m *Machine, fr *frame, a []Value) Value {
		hp := argStr(a[0])
		if n := len(hp.segs); n == 2 && hp.segs[1].t == nil && strings.HasPrefix(hp.segs[1].c, ":") && hp.segs[0].t != nil {
			return Tuple{Str{segs: hp.segs[:1]}, mkStr(hp.segs[1].c[1:]), Iface{}}
		}
		if len(hp.segs) == 1 && hp.segs[0].t != nil {
			t := e.namedType("net", "AddrError")
			st := zero(t).(Struct)
			*structFieldByName(t, st, "Err") = mkStr("missing port in address")
			*structFieldByName(t, st, "Addr") = hp
			cell := new(Value)
			*cell = st
			return Tuple{Str{}, Str{}, Iface{t: types.NewPointer(t), v: cell}}
		}
		if c, ok := hp.Const(); ok {
			i := strings.LastIndexByte(c, ':')
			if i >= 0 && !strings.Contains(c, "[") {
				return Tuple{mkStr(c[:i]), mkStr(c[i+1:]), Iface{}}
			}
		}
		panic(abort("net.SplitHostPort on unmodelled address"))
	}
	in[mainPath+".verifScriptHosts"] = func(m *Machine, fr *frame, a []Value) Value {
		n, _ := m.inputs["cs.n"].(Num)
		var out []Str
		for i := 0; i < int(n.c); i++ {
			out = append(out, m.inputs[fmt.Sprintf("host%d", i)].(Str))
		}
		return mkStrSlice(out)
	}
	in[mainPath+".verifClusterBody"] = func(m *Machine, fr *frame, a []Value) Value {
		v := mkStrT(TVar("clusterBody", SStr))
		m.recordInput("clusterBody", v)
		return v
	}
	in[mainPath+".verifScratchTempDir"] = func(m *Machine, fr *frame, a []Value) Value { return mkStr("/tmp") }
	in[mainPath+".verifCaptureStdio"] = func(m *Machine, fr *frame, a []Value) Value {
		if on, _ := a[0].(bool); on {
			m.stdioMark = len(m.events)
			return Str{}
		}
		var out Str
		for _, ev := range m.events[m.stdioMark:] {
			if ev.Kind == "write" && len(ev.Args) > 2 {
				if s, ok := ev.Args[2].(Str).Const(); ok && (s == "stdout" || s == "stderr") {
					out = strConcat(out, ev.Args[1].(Str))
				}
			}
		}
		return out
	}
	in[mainPath+".verifStdio"] = func(m *Machine, fr *frame, a []Value) Value {
		var out Str
		for _, ev := range m.events {
			if ev.Kind == "write" && len(ev.Args) > 2 {
				if s, ok := ev.Args[2].(Str).Const(); ok && (s == "stdout" || s == "stderr") {
					out = strConcat(out, ev.Args[1].(Str))
				}
			}
		}
		return out
	}
	in[mainPath+".verifTempLeftovers"] = func(m *Machine, fr *frame, a []Value) Value {
		live := map[*Term]bool{}
		for _, ev := range m.events {
			switch ev.Kind {
			case "createtemp":
				live[ev.Args[0].(Str).Term()] = true
			case "remove":
				delete(live, ev.Args[0].(Str).Term())
			}
		}
		return Num{c: int64(len(live))}
	}
	in[mainPath+".verifFileContent"] = func(m *Machine, fr *frame, a []Value) Value {
		// everything written to the named file so far
		name := argStr(a[0]).Term()
		var out Str
		for _, ev := range m.events {
			if ev.Kind == "write" && ev.Args[0].(Str).Term() == name {
				out = strConcat(out, ev.Args[1].(Str))
			}
		}
		return out
	}
	_ = ssa.InstantiateGenerics
}

func init() { extraHarness = append(extraHarness, registerHTTP) }
