package main

// Persistent SMT solver processes (z3-new 5.1 primary, cvc5 secondary).

import (
	"os"
	"runtime"
	"bufio"
	"fmt"
	"io"
	"os/exec"
	"sort"
	"strconv"
	"strings"
	"sync"
	"sync/atomic"
	"time"
	"unicode/utf8"
)

type Result int

const (
	Unsat Result = iota
	Sat
	Unknown
)

func (r Result) String() string { return [...]string{"unsat", "sat", "unknown"}[r] }

type SolverStats struct {
	Queries   int64
	Sat       int64
	Unsat     int64
	Unknown   int64
	TimeNanos int64
}

var (
	statsMu     sync.Mutex
	solverStats = map[string]*SolverStats{}
)

func statFor(name string) *SolverStats {
	statsMu.Lock()
	defer statsMu.Unlock()
	s := solverStats[name]
	if s == nil {
		s = &SolverStats{}
		solverStats[name] = s
	}
	return s
}

type proc struct {
	name string
	args []string
	cmd  *exec.Cmd
	in   io.WriteCloser
	out  *bufio.Reader
}

func (p *proc) start() error {
	p.cmd = exec.Command(p.args[0], p.args[1:]...)
	var err error
	p.in, err = p.cmd.StdinPipe()
	if err != nil {
		return err
	}
	o, err := p.cmd.StdoutPipe()
	if err != nil {
		return err
	}
	p.cmd.Stderr = nil
	p.out = bufio.NewReaderSize(o, 1<<16)
	return p.cmd.Start()
}

func (p *proc) kill() {
	if p.cmd != nil && p.cmd.Process != nil {
		p.cmd.Process.Kill()
		p.cmd.Wait()
	}
	p.cmd = nil
}

// readSexp reads one balanced s-expression or atom from the solver.
func (p *proc) readSexp() (string, error) {
	var sb strings.Builder
	depth := 0
	inStr := false
	started := false
	inBar := false
	for {
		c, err := p.out.ReadByte()
		if err != nil {
			return sb.String(), err
		}
		if !started {
			if c == ' ' || c == '\n' || c == '\r' || c == '\t' {
				continue
			}
			started = true
		}
		sb.WriteByte(c)
		if inStr {
			if c == '"' {
				// "" is an escaped quote
				nb, _ := p.out.Peek(1)
				if len(nb) == 1 && nb[0] == '"' {
					p.out.ReadByte()
					sb.WriteByte('"')
					continue
				}
				inStr = false
				if depth == 0 {
					return sb.String(), nil
				}
			}
			continue
		}
		if inBar {
			if c == '|' {
				inBar = false
			}
			continue
		}
		switch c {
		case '"':
			inStr = true
		case '|':
			inBar = true
		case '(':
			depth++
		case ')':
			depth--
			if depth == 0 {
				return sb.String(), nil
			}
		case '\n', ' ':
			if depth == 0 {
				return strings.TrimSpace(sb.String()), nil
			}
		}
	}
}

type Solver struct {
	procs   []*proc
	timeout time.Duration
}

var solverTimeoutMs = 10000

func NewSolver() *Solver {
	s := &Solver{}
	s.procs = []*proc{
		{name: "z3-new", args: []string{"z3-new", "-in", "-smt2"}},
		{name: "cvc5", args: []string{"cvc5", "--incremental", "--strings-exp", "--lang=smt2", "--produce-models"}},
	}
	return s
}

func (s *Solver) Close() {
	for _, p := range s.procs {
		p.kill()
	}
}

// axiomsFor instantiates the axioms of uninterpreted symbols occurring in ts.
func axiomsFor(ts []*Term) []*Term {
	var ax []*Term
	ufs := subterms(ts, func(t *Term) bool { return t.kind == KApp && t.uf })
	for _, u := range ufs {
		if a, ok := ufAxioms[ufBase(u.op)]; ok {
			ax = append(ax, a(u)...)
		}
	}
	return ax
}

func ufBase(op string) string {
	if i := strings.IndexByte(op, '#'); i >= 0 {
		return op[:i]
	}
	return op
}

// ufAxioms: per UF family, instance axioms for one application term.
var ufAxioms = map[string]func(u *Term) []*Term{}

// Check decides satisfiability of the conjunction of ts. If wantModel, the values of
// all variables are returned.
func (s *Solver) Check(ts []*Term, wantModel bool) (Result, *Model) {
	return s.CheckOn(0, ts, wantModel)
}

var solverSeq int64
var domainDecided, cacheHits int64
var queryCache sync.Map

func (s *Solver) script(ts []*Term, wantModel bool, vars []*Term, pname string) string {
	var sb strings.Builder
	sb.WriteString("(reset)\n")
	if pname == "z3-new" {
		fmt.Fprintf(&sb, "(set-option :timeout %d)\n", solverTimeoutMs)
	} else {
		sb.WriteString("(set-option :produce-models true)\n")
		fmt.Fprintf(&sb, "(set-option :tlimit-per %d)\n", solverTimeoutMs)
		sb.WriteString("(set-logic ALL)\n")
	}
	all := append([]*Term(nil), ts...)
	all = append(all, axiomsFor(ts)...)
	for _, d := range collectDecls(all) {
		sb.WriteString(d)
		sb.WriteByte('\n')
	}
	for _, t := range all {
		sb.WriteString("(assert ")
		t.write(&sb)
		sb.WriteString(")\n")
	}
	sb.WriteString("(check-sat)\n")
	return sb.String()
}

var callerStats sync.Map

func (s *Solver) CheckOn(first int, ts []*Term, wantModel bool) (Result, *Model) {
	if debugCallers {
		var pcs [6]uintptr
		n := runtime.Callers(2, pcs[:])
		fr := runtime.CallersFrames(pcs[:n])
		key := ""
		for i := 0; i < 4; i++ {
			f, more := fr.Next()
			key += fmt.Sprintf("%s:%d ", f.Function, f.Line)
			if !more {
				break
			}
		}
		c, _ := callerStats.LoadOrStore(key, new(int64))
		atomic.AddInt64(c.(*int64), 1)
	}
	// trivial cases
	var live []*Term
	for _, t := range ts {
		if t.kind == KConst {
			if !t.b {
				return Unsat, nil
			}
			continue
		}
		live = append(live, t)
	}
	if len(live) == 0 && !wantModel {
		return Sat, &Model{Str: map[string]string{}, Int: map[string]int64{}, Bool: map[string]bool{}}
	}
	if c, decided, res := compressQuery(live, wantModel); decided {
		atomic.AddInt64(&domainDecided, 1)
		if res == Sat && wantModel {
			// fall through to the solver for the model
		} else {
			return res, nil
		}
	} else {
		live = c
	}
	var ckey string
	if !wantModel {
		ids := make([]int, len(live))
		for i, t := range live {
			ids[i] = t.id
		}
		sort.Ints(ids)
		var sb strings.Builder
		for _, id := range ids {
			sb.WriteString(strconv.Itoa(id))
			sb.WriteByte(',')
		}
		ckey = sb.String()
		if v, ok := queryCache.Load(ckey); ok {
			atomic.AddInt64(&cacheHits, 1)
			return v.(Result), nil
		}
	}
	order := []int{first, 1 - first}
	for _, pi := range order {
		p := s.procs[pi]
		r, m := s.runOn(p, live, wantModel)
		if r != Unknown {
			if ckey != "" {
				queryCache.Store(ckey, r)
			}
			return r, m
		}
	}
	return Unknown, nil
}

func (s *Solver) runOn(p *proc, ts []*Term, wantModel bool) (Result, *Model) {
	st := statFor(p.name)
	t0 := time.Now()
	defer func() {
		atomic.AddInt64(&st.TimeNanos, int64(time.Since(t0)))
		atomic.AddInt64(&st.Queries, 1)
	}()
	if p.cmd == nil {
		if err := p.start(); err != nil {
			atomic.AddInt64(&st.Unknown, 1)
			return Unknown, nil
		}
	}
	script := s.script(ts, wantModel, nil, p.name)
	if debugSMT {
		fmt.Fprintf(debugOut, ";;; query to %s\n%s\n", p.name, script)
	}
	type resp struct {
		s   string
		err error
	}
	done := make(chan resp, 1)
	go func() {
		_, err := io.WriteString(p.in, script)
		if err != nil {
			done <- resp{"", err}
			return
		}
		r, err := p.readSexp()
		done <- resp{r, err}
	}()
	var ans string
	select {
	case r := <-done:
		if r.err != nil {
			p.kill()
			atomic.AddInt64(&st.Unknown, 1)
			return Unknown, nil
		}
		ans = r.s
	case <-time.After(time.Duration(solverTimeoutMs)*time.Millisecond + 5*time.Second):
		p.kill()
		atomic.AddInt64(&st.Unknown, 1)
		return Unknown, nil
	}
	if debugSMT {
		fmt.Fprintf(debugOut, ";;; -> %s\n", ans)
	}
	switch {
	case ans == "unsat":
		atomic.AddInt64(&st.Unsat, 1)
		return Unsat, nil
	case ans == "sat":
		atomic.AddInt64(&st.Sat, 1)
		if !wantModel {
			return Sat, nil
		}
		m := s.getModel(p, ts)
		if m == nil {
			return Sat, nil
		}
		return Sat, m
	default:
		// "unknown", "(error ...)", "timeout"
		if strings.HasPrefix(ans, "(error") {
			if debugSMT {
				fmt.Fprintf(debugOut, ";;; solver error: %s\n", ans)
			}
			// the process state may be inconsistent (further output pending): restart
			p.kill()
		}
		atomic.AddInt64(&st.Unknown, 1)
		return Unknown, nil
	}
}

func (s *Solver) getModel(p *proc, ts []*Term) *Model {
	all := append([]*Term(nil), ts...)
	vars := subterms(all, func(t *Term) bool { return t.kind == KVar })
	m := &Model{Str: map[string]string{}, Int: map[string]int64{}, Bool: map[string]bool{}}
	if len(vars) == 0 {
		return m
	}
	var sb strings.Builder
	sb.WriteString("(get-value (")
	for _, v := range vars {
		sb.WriteString(smtName(v.op))
		sb.WriteByte(' ')
	}
	sb.WriteString("))\n")
	if _, err := io.WriteString(p.in, sb.String()); err != nil {
		p.kill()
		return nil
	}
	r, err := p.readSexp()
	if err != nil || strings.HasPrefix(r, "(error") {
		p.kill()
		return nil
	}
	if debugSMT {
		fmt.Fprintf(debugOut, ";;; model %s\n", r)
	}
	toks := tokenizeSexp(r)
	// expected: ( ( name value ) ( name value ) ... )
	pos := 1
	byName := map[string]*Term{}
	for _, v := range vars {
		byName[smtName(v.op)] = v
		byName[v.op] = v
	}
	for pos < len(toks)-1 {
		if toks[pos] != "(" {
			break
		}
		name := toks[pos+1]
		// value may be an atom or a parenthesised expr
		vstart := pos + 2
		vend := vstart
		if toks[vstart] == "(" {
			d := 0
			for i := vstart; i < len(toks); i++ {
				if toks[i] == "(" {
					d++
				} else if toks[i] == ")" {
					d--
					if d == 0 {
						vend = i
						break
					}
				}
			}
		}
		val := toks[vstart : vend+1]
		pos = vend + 2
		v := byName[name]
		if v == nil {
			continue
		}
		switch v.sort {
		case SBool:
			m.Bool[v.op] = val[0] == "true"
		case SStr:
			m.Str[v.op] = parseSMTString(val[0])
		case SInt:
			m.Int[v.op] = parseSMTInt(val)
		default:
			m.Int[v.op] = parseSMTBV(val)
		}
	}
	return m
}

func tokenizeSexp(s string) []string {
	var toks []string
	i := 0
	for i < len(s) {
		c := s[i]
		switch {
		case c == ' ' || c == '\n' || c == '\t' || c == '\r':
			i++
		case c == '(' || c == ')':
			toks = append(toks, string(c))
			i++
		case c == '"':
			j := i + 1
			for j < len(s) {
				if s[j] == '"' {
					if j+1 < len(s) && s[j+1] == '"' {
						j += 2
						continue
					}
					break
				}
				j++
			}
			toks = append(toks, s[i:j+1])
			i = j + 1
		case c == '|':
			j := i + 1
			for j < len(s) && s[j] != '|' {
				j++
			}
			toks = append(toks, s[i:j+1])
			i = j + 1
		default:
			j := i
			for j < len(s) && !strings.ContainsRune(" \n\t\r()", rune(s[j])) {
				j++
			}
			toks = append(toks, s[i:j])
			i = j
		}
	}
	return toks
}

func parseSMTString(tok string) string {
	if len(tok) < 2 {
		return ""
	}
	body := tok[1 : len(tok)-1]
	var out []byte
	for i := 0; i < len(body); {
		c := body[i]
		if c == '"' && i+1 < len(body) && body[i+1] == '"' {
			out = append(out, '"')
			i += 2
			continue
		}
		if c == '\\' && i+1 < len(body) && body[i+1] == 'u' {
			// \u{X..} or \uXXXX
			if i+2 < len(body) && body[i+2] == '{' {
				j := strings.IndexByte(body[i:], '}')
				if j > 0 {
					n, err := strconv.ParseUint(body[i+3:i+j], 16, 32)
					if err == nil {
						out = appendCode(out, rune(n))
						i += j + 1
						continue
					}
				}
			} else if i+6 <= len(body) {
				n, err := strconv.ParseUint(body[i+2:i+6], 16, 32)
				if err == nil {
					out = appendCode(out, rune(n))
					i += 6
					continue
				}
			}
		}
		out = append(out, c)
		i++
	}
	return string(out)
}

func appendCode(out []byte, r rune) []byte {
	if r < 256 {
		return append(out, byte(r))
	}
	return utf8.AppendRune(out, r)
}

func parseSMTInt(val []string) int64 {
	// forms: 5 | (- 5)
	if len(val) == 1 {
		n, _ := strconv.ParseInt(val[0], 10, 64)
		return n
	}
	if len(val) >= 4 && val[1] == "-" {
		n, _ := strconv.ParseInt(val[2], 10, 64)
		return -n
	}
	return 0
}

func parseSMTBV(val []string) int64 {
	if len(val) == 1 {
		t := val[0]
		if strings.HasPrefix(t, "#x") {
			n, _ := strconv.ParseUint(t[2:], 16, 64)
			return int64(n)
		}
		if strings.HasPrefix(t, "#b") {
			n, _ := strconv.ParseUint(t[2:], 2, 64)
			return int64(n)
		}
	}
	// (_ bvN w)
	if len(val) >= 4 && val[1] == "_" && strings.HasPrefix(val[2], "bv") {
		n, _ := strconv.ParseUint(val[2][2:], 10, 64)
		return int64(n)
	}
	return 0
}

func init() {
	// hexbyte(b): two lower-case hex digits of a byte; injective (inverse function instance)
	ufAxioms["hexbyte"] = func(u *Term) []*Term {
		return []*Term{
			TEq(TLen(u), TInt(2)),
			TEq(TUF("unhexbyte", SBV8, u), u.args[0]),
		}
	}
}

var debugCallers = os.Getenv("GOSYM_CALLERS") != ""

func printCallerStats() {
	callerStats.Range(func(k, v any) bool {
		fmt.Printf("%8d %s\n", *v.(*int64), k)
		return true
	})
}
