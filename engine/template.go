package main

// Templates: JSON log lines with typed holes <<CLASS:name>>. A template is turned into
// the token stream that encoding/json's Decoder would deliver for any instantiation of
// its holes (contract of Decoder.Token: balanced delimiters, keys are strings).

import (
	"bytes"
	"encoding/json"
	"fmt"
	"regexp"
	"strings"
)

type TokKind int

const (
	TkDelim TokKind = iota
	TkString
	TkNumber
	TkBool
	TkNull
)

type Piece struct {
	Const string
	Hole  string // hole name ("" for constant piece)
	Class string
	T     *Term // direct term (tokens of re-tokenised output ropes)
}

type Tok struct {
	Kind   TokKind
	Delim  byte
	Pieces []Piece // TkString / TkNumber: concatenation of constants and holes
	Bool   bool    // TkBool constant
	Hole   string  // TkBool hole name
	BoolT  *Term   // TkBool given by a term
	IsKey  bool
}

type Hole struct {
	Name  string
	Class string
}

type Template struct {
	Name  string
	Text  string
	Toks  []Tok
	Holes []Hole // in order of first occurrence
}

var holeRe = regexp.MustCompile(`<<([A-Z0-9]+):([A-Za-z0-9_]+)>>`)

func splitPieces(s string) []Piece {
	var out []Piece
	idx := holeRe.FindAllStringSubmatchIndex(s, -1)
	last := 0
	for _, m := range idx {
		if m[0] > last {
			out = append(out, Piece{Const: s[last:m[0]]})
		}
		out = append(out, Piece{Class: s[m[2]:m[3]], Hole: s[m[4]:m[5]]})
		last = m[1]
	}
	if last < len(s) {
		out = append(out, Piece{Const: s[last:]})
	}
	return out
}

// ParseTemplate tokenises template text.
func ParseTemplate(name, text string) (*Template, error) {
	t := &Template{Name: name, Text: text}
	dec := json.NewDecoder(bytes.NewReader([]byte(text)))
	dec.UseNumber()
	seen := map[string]bool{}
	addHoles := func(ps []Piece) {
		for _, p := range ps {
			if p.Hole != "" && !seen[p.Hole] {
				seen[p.Hole] = true
				t.Holes = append(t.Holes, Hole{p.Hole, p.Class})
			}
		}
	}
	// track whether the next string is a key
	type ctx struct {
		obj     bool
		wantKey bool
	}
	var stack []ctx
	afterValue := func() {
		if n := len(stack); n > 0 && stack[n-1].obj {
			stack[n-1].wantKey = true
		}
	}
	for {
		tok, err := dec.Token()
		if err != nil {
			if err.Error() == "EOF" {
				break
			}
			return nil, fmt.Errorf("template %s: %v", name, err)
		}
		switch v := tok.(type) {
		case json.Delim:
			t.Toks = append(t.Toks, Tok{Kind: TkDelim, Delim: byte(v)})
			switch v {
			case '{':
				stack = append(stack, ctx{obj: true, wantKey: true})
			case '[':
				stack = append(stack, ctx{})
			default:
				stack = stack[:len(stack)-1]
				afterValue()
			}
		case string:
			isKey := len(stack) > 0 && stack[len(stack)-1].obj && stack[len(stack)-1].wantKey
			ps := splitPieces(v)
			addHoles(ps)
			if isKey {
				stack[len(stack)-1].wantKey = false
				t.Toks = append(t.Toks, Tok{Kind: TkString, Pieces: ps, IsKey: true})
				continue
			}
			if len(ps) == 1 && ps[0].Hole != "" {
				switch ps[0].Class {
				case "N":
					t.Toks = append(t.Toks, Tok{Kind: TkNumber, Pieces: ps})
					afterValue()
					continue
				case "B":
					t.Toks = append(t.Toks, Tok{Kind: TkBool, Hole: ps[0].Hole})
					afterValue()
					continue
				}
			}
			t.Toks = append(t.Toks, Tok{Kind: TkString, Pieces: ps})
			afterValue()
		case json.Number:
			t.Toks = append(t.Toks, Tok{Kind: TkNumber, Pieces: []Piece{{Const: string(v)}}})
			afterValue()
		case bool:
			t.Toks = append(t.Toks, Tok{Kind: TkBool, Bool: v})
			afterValue()
		case nil:
			t.Toks = append(t.Toks, Tok{Kind: TkNull})
			afterValue()
		}
	}
	return t, nil
}

// Instantiate substitutes concrete values for holes, producing a JSON line.
func (t *Template) Instantiate(strs map[string]string, bools map[string]bool) string {
	out := holeRe.ReplaceAllStringFunc(t.Text, func(m string) string {
		sm := holeRe.FindStringSubmatch(m)
		class, name := sm[1], sm[2]
		switch class {
		case "N", "B":
			return m // handled below (whole quoted token)
		}
		v := strs[name]
		b, _ := json.Marshal(v)
		return string(b[1 : len(b)-1])
	})
	// number and boolean holes replace the quoted token
	out = regexp.MustCompile(`"<<(N|B):([A-Za-z0-9_]+)>>"`).ReplaceAllStringFunc(out, func(m string) string {
		sm := holeRe.FindStringSubmatch(m)
		if sm[1] == "N" {
			v := strs[sm[2]]
			if v == "" {
				v = "0"
			}
			return v
		}
		if bools[sm[2]] {
			return "true"
		}
		return "false"
	})
	return out
}

func (t *Template) HoleNames(class string) []string {
	var out []string
	for _, h := range t.Holes {
		if h.Class == class {
			out = append(out, h.Name)
		}
	}
	return out
}

func piecesConst(ps []Piece) (string, bool) {
	var sb strings.Builder
	for _, p := range ps {
		if p.Hole != "" {
			return "", false
		}
		sb.WriteString(p.Const)
	}
	return sb.String(), true
}

// HolePos: position of a hole-bearing token in the template's tree. Path is the index
// path from the root object ("7.4.1": 8th member, its 5th member/element, ...).
type HolePos struct {
	Path  string
	Class string // class of the hole if the token is exactly one hole, "~" if composite
	IsKey bool
}

func (t *Template) HolePositions() []HolePos {
	type lvl struct {
		obj  bool
		idx  int
		path string
	}
	var out []HolePos
	var stack []lvl
	childPath := func() string {
		if len(stack) == 0 {
			return ""
		}
		top := stack[len(stack)-1]
		if top.path == "" {
			return fmt.Sprint(top.idx)
		}
		return top.path + "." + fmt.Sprint(top.idx)
	}
	done := func() {
		if len(stack) > 0 {
			stack[len(stack)-1].idx++
		}
	}
	classOf := func(ps []Piece) string {
		holes := 0
		for _, p := range ps {
			if p.Hole != "" {
				holes++
			}
		}
		if holes == 0 {
			return ""
		}
		if len(ps) == 1 {
			return ps[0].Class
		}
		var cs []string
		for _, p := range ps {
			if p.Hole != "" {
				cs = append(cs, p.Class)
			}
		}
		return "~" + strings.Join(cs, "+")
	}
	for _, tk := range t.Toks {
		switch tk.Kind {
		case TkDelim:
			switch tk.Delim {
			case '{', '[':
				stack = append(stack, lvl{obj: tk.Delim == '{', path: childPath()})
			default:
				stack = stack[:len(stack)-1]
				done()
			}
		case TkString, TkNumber:
			if c := classOf(tk.Pieces); c != "" {
				out = append(out, HolePos{Path: childPath(), Class: c, IsKey: tk.IsKey})
			}
			if !tk.IsKey {
				done()
			}
		case TkBool:
			if tk.Hole != "" {
				out = append(out, HolePos{Path: childPath(), Class: "B"})
			}
			done()
		default:
			done()
		}
	}
	return out
}
