package main

// Translation of Go regular expressions (regexp/syntax) to SMT-LIB RegLan, for
// MatchString (unanchored unless the pattern anchors itself).

import (
	"crypto/sha256"
	"encoding/json"
	"fmt"
	"regexp/syntax"
	"strings"
	"sync"
)

var (
	regLanMu    sync.Mutex
	regLanCache = map[int]string{}
	regLanBad   = map[int]bool{}
)

func regLanFor(id int) (string, bool) {
	regLanMu.Lock()
	defer regLanMu.Unlock()
	if s, ok := regLanCache[id]; ok {
		return s, true
	}
	if regLanBad[id] {
		return "", false
	}
	regexMu.Lock()
	pat := regexList[id].String()
	regexMu.Unlock()
	s, err := regexToRegLan(pat)
	if err != nil {
		regLanBad[id] = true
		return "", false
	}
	regLanCache[id] = s
	return s, true
}

const reAllChar = `(re.range "\u{0}" "\u{ff}")`

func regexToRegLan(pattern string) (string, error) {
	re, err := syntax.Parse(pattern, syntax.Perl)
	if err != nil {
		return "", err
	}
	re = re.Simplify()
	return regexTop(re)
}

// regexTop: a whole pattern under MatchString semantics. Top-level alternations (and capture
// groups around them) are distributed, because each alternative may carry its own anchors
// ("^a|b$" is "starts with a" or "ends with b").
func regexTop(re *syntax.Regexp) (string, error) {
	for re.Op == syntax.OpCapture {
		re = re.Sub[0]
	}
	if re.Op == syntax.OpAlternate {
		var alts []string
		for _, sub := range re.Sub {
			a, err := regexTop(sub)
			if err != nil {
				return "", err
			}
			alts = append(alts, a)
		}
		return "(re.union " + strings.Join(alts, " ") + ")", nil
	}
	// MatchString semantics: the pattern may match anywhere. Anchors are handled by
	// splitting top-level concatenations: ^ at the start and $ at the end.
	body, begin, end, err := stripAnchors(re)
	if err != nil {
		return "", err
	}
	inner, err := toRegLan(body)
	if err != nil {
		return "", err
	}
	parts := []string{}
	if !begin {
		parts = append(parts, "(re.* "+reAllChar+")")
	}
	parts = append(parts, inner)
	if !end {
		parts = append(parts, "(re.* "+reAllChar+")")
	}
	if len(parts) == 1 {
		return parts[0], nil
	}
	return "(re.++ " + strings.Join(parts, " ") + ")", nil
}

func stripAnchors(re *syntax.Regexp) (body *syntax.Regexp, begin, end bool, err error) {
	isBegin := func(r *syntax.Regexp) bool { return r.Op == syntax.OpBeginText }
	isEnd := func(r *syntax.Regexp) bool { return r.Op == syntax.OpEndText }
	if re.Op == syntax.OpConcat {
		subs := re.Sub
		if len(subs) > 0 && isBegin(subs[0]) {
			begin = true
			subs = subs[1:]
		}
		if len(subs) > 0 && isEnd(subs[len(subs)-1]) {
			end = true
			subs = subs[:len(subs)-1]
		}
		cp := *re
		cp.Sub = subs
		return &cp, begin, end, nil
	}
	if isBegin(re) {
		return &syntax.Regexp{Op: syntax.OpEmptyMatch}, true, false, nil
	}
	if isEnd(re) {
		return &syntax.Regexp{Op: syntax.OpEmptyMatch}, false, true, nil
	}
	return re, false, false, nil
}

func runeLit(r rune) (string, error) {
	if r > 0xff {
		return "", fmt.Errorf("non-byte rune in regexp")
	}
	return smtStr(string([]byte{byte(r)})), nil
}

func toRegLan(re *syntax.Regexp) (string, error) {
	switch re.Op {
	case syntax.OpEmptyMatch:
		return `(str.to_re "")`, nil
	case syntax.OpLiteral:
		fold := re.Flags&syntax.FoldCase != 0
		var parts []string
		for _, r := range re.Rune {
			if r > 0x7f {
				return "", fmt.Errorf("non-ASCII literal in regexp")
			}
			if fold && ((r >= 'a' && r <= 'z') || (r >= 'A' && r <= 'Z')) {
				lo := strings.ToLower(string(r))
				up := strings.ToUpper(string(r))
				parts = append(parts, fmt.Sprintf("(re.union (str.to_re %s) (str.to_re %s))", smtStr(lo), smtStr(up)))
			} else {
				parts = append(parts, "(str.to_re "+smtStr(string(r))+")")
			}
		}
		if len(parts) == 1 {
			return parts[0], nil
		}
		return "(re.++ " + strings.Join(parts, " ") + ")", nil
	case syntax.OpCharClass:
		var alts []string
		for i := 0; i+1 < len(re.Rune); i += 2 {
			lo, hi := re.Rune[i], re.Rune[i+1]
			if lo > 0xff {
				continue
			}
			if hi > 0xff {
				hi = 0xff
			}
			l, _ := runeLit(lo)
			h, _ := runeLit(hi)
			alts = append(alts, fmt.Sprintf("(re.range %s %s)", l, h))
		}
		if len(alts) == 0 {
			return "re.none", nil
		}
		if len(alts) == 1 {
			return alts[0], nil
		}
		return "(re.union " + strings.Join(alts, " ") + ")", nil
	case syntax.OpAnyCharNotNL:
		return `(re.union (re.range "\u{0}" "\u{9}") (re.range "\u{b}" "\u{ff}"))`, nil
	case syntax.OpAnyChar:
		return reAllChar, nil
	case syntax.OpCapture:
		return toRegLan(re.Sub[0])
	case syntax.OpStar, syntax.OpPlus, syntax.OpQuest:
		s, err := toRegLan(re.Sub[0])
		if err != nil {
			return "", err
		}
		op := map[syntax.Op]string{syntax.OpStar: "re.*", syntax.OpPlus: "re.+", syntax.OpQuest: "re.opt"}[re.Op]
		return "(" + op + " " + s + ")", nil
	case syntax.OpRepeat:
		s, err := toRegLan(re.Sub[0])
		if err != nil {
			return "", err
		}
		if re.Max < 0 {
			return fmt.Sprintf("(re.++ ((_ re.^ %d) %s) (re.* %s))", re.Min, s, s), nil
		}
		return fmt.Sprintf("((_ re.loop %d %d) %s)", re.Min, re.Max, s), nil
	case syntax.OpConcat, syntax.OpAlternate:
		var parts []string
		for _, sub := range re.Sub {
			s, err := toRegLan(sub)
			if err != nil {
				return "", err
			}
			parts = append(parts, s)
		}
		if len(parts) == 0 {
			return `(str.to_re "")`, nil
		}
		if len(parts) == 1 {
			return parts[0], nil
		}
		op := "re.++"
		if re.Op == syntax.OpAlternate {
			op = "re.union"
		}
		return "(" + op + " " + strings.Join(parts, " ") + ")", nil
	}
	return "", fmt.Errorf("unsupported regexp construct %v", re.Op)
}

// evalUF gives the concrete interpretation of the engine's uninterpreted symbols.
func (e *Engine) evalUF(name string, args []any) (any, bool) {
	base := ufBase(name)
	if strings.HasPrefix(name, "pure:") {
		return evalPureUF(name, args)
	}
	switch {
	case base == "re":
		var id int
		fmt.Sscanf(name, "re#%d", &id)
		regexMu.Lock()
		re := regexList[id]
		regexMu.Unlock()
		return re.MatchString(args[0].(string)), true
	case name == "jstr":
		b, _ := json.Marshal(args[0].(string))
		return string(b), true
	case base == "sha256byte":
		var i int
		fmt.Sscanf(name, "sha256byte#%d", &i)
		h := sha256.Sum256([]byte(args[0].(string)))
		return uint64(h[i]), true
	case name == "hexbyte":
		return fmt.Sprintf("%02x", byte(args[0].(uint64))), true
	case name == "itoa":
		return fmt.Sprintf("%d", args[0].(int64)), true
	case name == "tolower":
		return strings.ToLower(args[0].(string)), true
	}
	return nil, false
}
