package main

// C11: key-file lifecycle. The real main() is run up to three times in a row over one
// symbolic file system (the post-state of a run is the pre-state of the next); processing
// calls are cut into events that carry a snapshot of the key in use.

import (
	"fmt"
	"strings"
)

func keyPost(cr *checkRun) {
	solver := NewSolver()
	defer solver.Close()
	seen := map[string]bool{}
	add := func(job *Job, id, result, details string) {
		ob := Obligation{ID: job.Name + "#" + id, Result: result, Details: details}
		if result == "violated" {
			if seen[ob.ID] {
				return
			}
			seen[ob.ID] = true
		}
		cr.extraOb = append(cr.extraOb, ob)
	}
	for ji, jr := range cr.results {
		job := cr.jobs[ji]
		for _, p := range jr.Paths {
			if p.End == "abort" || p.End == "infeasible" {
				continue
			}
			// the key path and its initial state
			var keyPath Str
			found := false
			for _, ev := range p.Events {
				if ev.Kind == "stat" {
					keyPath = ev.Args[0].(Str)
					found = true
					break
				}
			}
			if !found {
				continue // encrypt block not entered on this path
			}
			kp := keyPath.Term()
			kindV, _ := p.Inputs["fs.kind:"+kp.SMT()].(Str)
			kind, _ := kindV.Const()
			valid := func(q ...*Term) bool { // PC => not q
				r, _ := solver.Check(append(append([]*Term{}, p.PC...), q...), false)
				return r == Unsat
			}
			samePath := func(n Value) bool {
				s, ok := n.(Str)
				return ok && s.Term() == kp
			}
			// walk the events
			writes, goodWrites, removes, processing, outputCreatedBeforeKey := 0, 0, 0, 0, false
			var firstWriteData Str
			var firstWritePerm int64 = -1
			var keysUsed []Value
			exitCode := int64(-1)
			lastWriteIdx := -1
			initialContent, hasInitial := Str{}, false
			for name, v := range p.Inputs {
				if strings.HasPrefix(name, "fs.content!") && kind == "file" && !hasInitial {
					initialContent, hasInitial = v.(Str), true
				}
			}
			for i, ev := range p.Events {
				switch {
				case ev.Kind == "writefile" && samePath(ev.Args[0]):
					writes++
					lastWriteIdx = i
					if writes == 1 {
						firstWriteData = ev.Args[1].(Str)
						if n, ok := ev.Args[2].(Num); ok && n.t == nil {
							firstWritePerm = n.c
						}
					}
					failed := i+1 < len(p.Events) && p.Events[i+1].Kind == "envfail"
					if !failed {
						goodWrites++
					}
				case (ev.Kind == "remove" || ev.Kind == "create") && samePath(ev.Args[0]):
					removes++
				case ev.Kind == "create" && writes == 0:
					outputCreatedBeforeKey = true
				case isProcessing(ev.Kind):
					processing++
					for k := 0; k+1 < len(ev.Args); k++ {
						if tag, ok := ev.Args[k].(Str); ok {
							if c, ok := tag.Const(); ok && c == "@encryptionKey" {
								keysUsed = append(keysUsed, ev.Args[k+1])
							}
						}
					}
				case ev.Kind == "exit":
					if n, ok := ev.Args[0].(Num); ok && n.t == nil {
						exitCode = n.c
					}
				}
			}
			_ = outputCreatedBeforeKey
			_ = lastWriteIdx
			if p.End == "panic" {
				add(job, "no-crash:"+kind, "violated", "run panics with the key path in state "+kind+": "+p.Msg)
				continue
			}
			keyStr := func(v Value) (Str, bool) {
				sl, ok := v.(Slice)
				if !ok {
					return Str{}, false
				}
				return sliceToStr(sl), true
			}
			switch kind {
			case "absent":
				if processing > 0 {
					ok := goodWrites == 1 && writes == 1 && removes == 0
					res := "discharged"
					if !ok {
						res = "violated"
					}
					add(job, "absent:stored-exactly-once", res, fmt.Sprintf("key path absent, processing reached with %d successful / %d attempted key-file writes, %d removes", goodWrites, writes, removes))
					if writes >= 1 {
						// owner-only permissions, 64 fresh random bytes, base64
						res = "discharged"
						if firstWritePerm != 0600 {
							res = "violated"
						}
						add(job, "absent:mode-0600", res, fmt.Sprintf("key file written with mode %o", firstWritePerm))
						t := firstWriteData.Term()
						okForm := t.kind == KApp && t.uf && t.op == "b64"
						if okForm {
							rnd := 0
							for a := range t.args[0].Atoms() {
								if strings.HasPrefix(a.op, "rnd!") {
									rnd++
								}
							}
							// 64 one-byte pieces, each a fresh random byte
							okForm = rnd == 64 && t.args[0].op == "str.++" && len(t.args[0].args) == 64
						}
						res = "discharged"
						if !okForm {
							res = "violated"
						}
						add(job, "absent:base64-of-64-fresh-random-bytes", res, "stored content: "+trunc(t.SMT(), 200))
						// written before any processing, and every run uses exactly the stored key
						firstProc := -1
						for i, ev := range p.Events {
							if isProcessing(ev.Kind) {
								firstProc = i
								break
							}
						}
						res = "discharged"
						if firstProc >= 0 && lastWriteIdx > firstProc {
							res = "violated"
						}
						add(job, "absent:stored-before-any-output", res, "")
						for _, k := range keysUsed {
							ks, ok := keyStr(k)
							res = "violated"
							if ok && okForm {
								if ks.Term() == t.args[0] || valid(TNot(TEq(ks.Term(), t.args[0]))) {
									res = "discharged"
								}
							}
							add(job, "absent:key-in-use-is-the-stored-key", res, "")
						}
					}
				} else if exitCode == 0 {
					add(job, "absent:no-silent-skip", "violated", "exit 0 without processing")
				}
			case "file":
				if !hasInitial {
					continue
				}
				ct := initialContent.Term()
				usable := TAnd(TUF("b64ok", SBool, ct), TEq(TLen(TUF("unb64", SStr, ct)), TInt(64)))
				res := "discharged"
				if goodWrites > 0 || writes > 0 || removes > 0 {
					res = "violated"
				}
				add(job, "existing:never-overwritten", res, fmt.Sprintf("existing key file: %d write attempts, %d removes/creates on the key path", writes, removes))
				if processing > 0 {
					// only a usable key lets a run proceed, and the key in use is its decoded content
					res = "discharged"
					if !valid(TNot(usable)) {
						res = "violated"
					}
					add(job, "existing:unusable-key-refused", res, "a run proceeds with a key file whose content is not base64 of 64 bytes")
					for _, k := range keysUsed {
						ks, ok := keyStr(k)
						res = "violated"
						if ok && valid(TNot(TEq(ks.Term(), TUF("unb64", SStr, ct)))) {
							res = "discharged"
						}
						add(job, "existing:key-in-use-is-the-file-content", res, "")
					}
				} else {
					res = "discharged"
					if exitCode <= 0 {
						res = "violated"
					}
					add(job, "existing:unusable-exits-non-zero", res, fmt.Sprintf("exit status %d", exitCode))
				}
			default: // dir, staterror (unreadable / parent is a file)
				res := "discharged"
				if processing > 0 || goodWrites > 0 || exitCode <= 0 {
					res = "violated"
				}
				add(job, "unusable-path:"+kind, res, fmt.Sprintf("key path is %s: processing events %d, successful key writes %d, exit %d", kind, processing, goodWrites, exitCode))
			}
		}
	}
}
