package main

import (
	"bytes"
	"crypto/sha256"
	"encoding/json"
	"fmt"
	"go/types"
	"regexp"
	"sort"
	"strconv"
	"strings"
)

func registerIntrinsics(e *Engine) {
	registerStrings(e)
	registerJSON(e)
	registerFmt(e)
	registerMisc(e)
	registerHarnessAPI(e)
	registerIO(e)
	for _, f := range extraHarness {
		f(e)
	}
}

var extraHarness []func(e *Engine)

func argStr(v Value) Str { return v.(Str) }

func strSliceVals(v Value) []Str {
	s := v.(Slice)
	out := make([]Str, s.len)
	for i := range out {
		out[i] = (*s.At(i)).(Str)
	}
	return out
}

func mkStrSlice(ss []Str) Slice {
	arr := make([]Value, len(ss))
	for i, s := range ss {
		arr[i] = s
	}
	return Slice{arr: &arr, len: len(arr), cap: len(arr)}
}

func mkByteSlice(b []byte) Slice {
	arr := make([]Value, len(b))
	for i, c := range b {
		arr[i] = Num{c: int64(c)}
	}
	return Slice{arr: &arr, len: len(arr), cap: len(arr)}
}

func (m *Machine) note(s string) {
	for _, n := range m.notes {
		if n == s {
			return
		}
	}
	m.notes = append(m.notes, s)
}

func (m *Machine) freshAtom(prefix string) *Term {
	m.atomSeq++
	return TVar(fmt.Sprintf("%s!%d", prefix, m.atomSeq), SStr)
}

// ---------- strings ----------

type splitKey struct {
	at  *Term
	sep string
}

const maxSplitParts = 3 // a symbolic atom is split into at most 3 parts (2 separators)
const maxTrim = 2

func registerStrings(e *Engine) {
	in := e.intrinsics
	in["strings.HasPrefix"] = func(m *Machine, fr *frame, a []Value) Value {
		return mkBool(TPrefixOf(argStr(a[1]).Term(), argStr(a[0]).Term()))
	}
	in["strings.HasSuffix"] = func(m *Machine, fr *frame, a []Value) Value {
		return mkBool(TSuffixOf(argStr(a[1]).Term(), argStr(a[0]).Term()))
	}
	in["strings.Contains"] = func(m *Machine, fr *frame, a []Value) Value {
		return mkBool(TContains(argStr(a[0]).Term(), argStr(a[1]).Term()))
	}
	in["strings.TrimPrefix"] = func(m *Machine, fr *frame, a []Value) Value {
		s, p := argStr(a[0]), argStr(a[1])
		if cs, ok := s.Const(); ok {
			if cp, ok := p.Const(); ok {
				return mkStr(strings.TrimPrefix(cs, cp))
			}
		}
		st, pt := s.Term(), p.Term()
		if m.branch(TPrefixOf(pt, st)) {
			return m.dropPrefix(s, p)
		}
		return s
	}
	in["strings.TrimLeft"] = func(m *Machine, fr *frame, a []Value) Value {
		s, cut := argStr(a[0]), argStr(a[1])
		cc, ok := cut.Const()
		if !ok {
			panic(abort("strings.TrimLeft with symbolic cutset"))
		}
		if cs, ok := s.Const(); ok {
			return mkStr(strings.TrimLeft(cs, cc))
		}
		if len(cc) != 1 {
			panic(abort("strings.TrimLeft: symbolic string with multi-char cutset"))
		}
		cur := s
		for i := 0; ; i++ {
			if c, ok := cur.Const(); ok {
				return mkStr(strings.TrimLeft(c, cc))
			}
			has := TPrefixOf(TStr(cc), cur.Term())
			if i >= maxTrim {
				// bound: no more than maxTrim leading cutset characters inside symbolic parts
				m.note(fmt.Sprintf("bound: strings.TrimLeft removes at most %d cutset characters from symbolic text", maxTrim))
				m.addPCAssume(TNot(has))
				return cur
			}
			if !m.branch(has) {
				return cur
			}
			cur = m.dropPrefix(cur, mkStr(cc))
		}
	}
	in["strings.TrimRight"] = func(m *Machine, fr *frame, a []Value) Value {
		s, cut := argStr(a[0]), argStr(a[1])
		cc, ok := cut.Const()
		if !ok {
			panic(abort("strings.TrimRight with symbolic cutset"))
		}
		if cs, ok := s.Const(); ok {
			return mkStr(strings.TrimRight(cs, cc))
		}
		if s.b != nil {
			panic(abort("strings.TrimRight on byte-level string"))
		}
		segs := append([]Seg{}, s.segs...)
		for len(segs) > 0 && segs[len(segs)-1].t == nil {
			t := strings.TrimRight(segs[len(segs)-1].c, cc)
			if t != "" {
				segs[len(segs)-1] = Seg{c: t}
				return Str{segs: segs}
			}
			segs = segs[:len(segs)-1]
		}
		if len(segs) > 0 {
			last := segs[len(segs)-1].t
			if !strings.HasPrefix(last.op, "line!") {
				// bound: symbolic text does not end with a cutset character
				for _, ch := range cc {
					m.addPCAssume(TNot(TSuffixOf(TStr(string(ch)), last)))
				}
				m.note(fmt.Sprintf("bound: strings.TrimRight(%q) removes nothing from the symbolic part of a string", cc))
			}
		}
		return Str{segs: segs}
	}
	in["strings.TrimSpace"] = func(m *Machine, fr *frame, a []Value) Value {
		s := argStr(a[0])
		if cs, ok := s.Const(); ok {
			return mkStr(strings.TrimSpace(cs))
		}
		return m.trimSpaceB(s)
	}
	in["strings.ToLower"] = func(m *Machine, fr *frame, a []Value) Value {
		s := argStr(a[0])
		if cs, ok := s.Const(); ok {
			return mkStr(strings.ToLower(cs))
		}
		return mkStrT(TUF("tolower", SStr, s.Term()))
	}
	in["strings.Split"] = func(m *Machine, fr *frame, a []Value) Value {
		return mkStrSlice(m.splitStr(argStr(a[0]), argStr(a[1]), -1))
	}
	in["strings.SplitN"] = func(m *Machine, fr *frame, a []Value) Value {
		n := a[2].(Num)
		if n.t != nil {
			panic(abort("SplitN symbolic n"))
		}
		return mkStrSlice(m.splitStr(argStr(a[0]), argStr(a[1]), int(n.c)))
	}
	in["strings.Join"] = func(m *Machine, fr *frame, a []Value) Value {
		parts := strSliceVals(a[0])
		sep := argStr(a[1])
		var out Str
		for i, p := range parts {
			if i > 0 {
				out = strConcat(out, sep)
			}
			out = strConcat(out, p)
		}
		return out
	}
	in["strings.ReplaceAll"] = func(m *Machine, fr *frame, a []Value) Value {
		s, from, to := argStr(a[0]), argStr(a[1]), argStr(a[2])
		cs, ok1 := s.Const()
		cf, ok2 := from.Const()
		ct, ok3 := to.Const()
		if ok1 && ok2 && ok3 {
			return mkStr(strings.ReplaceAll(cs, cf, ct))
		}
		if bs, ok := s.bytesB(); ok && s.b != nil {
			if fb, ok := from.bytesB(); ok {
				return m.replaceAllB(bs, fb, to)
			}
		}
		// Go: empty old string inserts at every rune boundary; SMT-LIB leaves s unchanged
		if !m.branch(TNot(TEq(from.Term(), TStr("")))) {
			panic(abort("strings.ReplaceAll with empty symbolic pattern"))
		}
		return mkStrT(TReplaceAll(s.Term(), from.Term(), to.Term()))
	}
	in["strings.Index"] = func(m *Machine, fr *frame, a []Value) Value {
		s, sub := argStr(a[0]), argStr(a[1])
		cs, ok1 := s.Const()
		cf, ok2 := sub.Const()
		if ok1 && ok2 {
			return Num{c: int64(strings.Index(cs, cf))}
		}
		return Num{t: TIndexOf(s.Term(), sub.Term(), TInt(0))}
	}
	in["sort.Strings"] = func(m *Machine, fr *frame, a []Value) Value {
		s := a[0].(Slice)
		// insertion sort with symbolic comparisons (forks)
		for i := 1; i < s.len; i++ {
			for j := i; j > 0; j-- {
				x, y := (*s.At(j - 1)).(Str), (*s.At(j)).(Str)
				var gt bool
				cx, ok1 := x.Const()
				cy, ok2 := y.Const()
				if ok1 && ok2 {
					gt = cx > cy
				} else {
					gt = m.branch(mkApp("str.<", SBool, false, y.Term(), x.Term()))
				}
				if !gt {
					break
				}
				*s.At(j - 1), *s.At(j) = y, x
			}
		}
		return nil
	}
}

func (m *Machine) addPCAssume(t *Term) {
	if t.kind == KConst || m.pcSet[t] {
		m.addPC(t)
		return
	}
	// the feasibility verdict is recorded in the decision trail so that re-executions of
	// the prefix do not repeat the query
	if m.tpos < len(m.trail) {
		m.tpos++
		m.addPC(t)
		return
	}
	if m.feasible(t) == Unsat {
		panic(pathEnd{kind: "infeasible"})
	}
	m.trail = append(m.trail, 1)
	m.tpos++
	m.addPC(t)
}

// dropPrefix removes prefix p (known to be a prefix) from s.
func (m *Machine) dropPrefix(s, p Str) Str {
	if cp, ok := p.Const(); ok && s.b == nil {
		// strip from leading constant segment if possible
		if len(s.segs) > 0 && s.segs[0].t == nil && len(s.segs[0].c) >= len(cp) {
			rest := s.segs[0].c[len(cp):]
			segs := append([]Seg{}, s.segs[1:]...)
			if rest != "" {
				segs = append([]Seg{{c: rest}}, segs...)
			}
			return Str{segs: segs}
		}
		// leading atom: introduce the remainder as a fresh atom
		if len(s.segs) > 0 && s.segs[0].t != nil {
			mk := splitKey{s.segs[0].t, "prefix:" + cp}
			pair, seen := m.splitMemo[mk]
			if !seen {
				pair = [2]*Term{m.freshAtom("rest"), nil}
				if m.splitMemo == nil {
					m.splitMemo = map[splitKey][2]*Term{}
				}
				m.splitMemo[mk] = pair
			}
			r := pair[0]
			m.addPC(TEq(s.segs[0].t, TConcat(TStr(cp), r)))
			segs := append([]Seg{{t: r}}, s.segs[1:]...)
			return Str{segs: segs}
		}
	}
	if bs, ok := s.bytesB(); ok {
		if pb, ok := p.bytesB(); ok {
			return Str{b: bs[len(pb):]}
		}
	}
	st, pt := s.Term(), p.Term()
	return mkStrT(TSubstr(st, TLen(pt), TSub(TLen(st), TLen(pt))))
}

// splitStr models strings.Split / SplitN for a constant separator.
func (m *Machine) splitStr(s, sep Str, n int) []Str {
	cs, ok1 := s.Const()
	csep, ok2 := sep.Const()
	if ok1 && ok2 {
		var parts []string
		if n < 0 {
			parts = strings.Split(cs, csep)
		} else {
			parts = strings.SplitN(cs, csep, n)
		}
		out := make([]Str, len(parts))
		for i, p := range parts {
			out[i] = mkStr(p)
		}
		return out
	}
	if !ok2 || len(csep) != 1 {
		panic(abort("strings.Split: symbolic or multi-byte separator"))
	}
	if s.b != nil {
		return m.splitB(s.b, csep[0], n)
	}
	if n == 0 {
		return nil
	}
	// walk the rope; constant segments are split natively, atoms by bounded Skolemisation
	var parts []Str
	cur := Str{}
	limit := func() bool { return n > 0 && len(parts) >= n-1 }
	for si, g := range s.segs {
		if limit() {
			cur = strConcat(cur, Str{segs: s.segs[si:]})
			break
		}
		if g.t == nil {
			rest := g.c
			for !limit() {
				i := strings.Index(rest, csep)
				if i < 0 {
					break
				}
				parts = append(parts, strConcat(cur, mkStr(rest[:i])))
				cur = Str{}
				rest = rest[i+1:]
			}
			cur = strConcat(cur, mkStr(rest))
			continue
		}
		at := g.t
		for k := 0; ; k++ {
			has := TContains(at, TStr(csep))
			if limit() {
				break
			}
			if k >= maxSplitParts-1 {
				m.note(fmt.Sprintf("bound: a symbolic name contains at most %d separators %q", maxSplitParts-1, csep))
				m.addPCAssume(TNot(has))
				break
			}
			if !m.branch(has) {
				break
			}
			// the same atom split again on this path yields the same components
			mk := splitKey{at, csep}
			pair, seen := m.splitMemo[mk]
			if !seen {
				pair = [2]*Term{m.freshAtom("sp"), m.freshAtom("sp")}
				if m.splitMemo == nil {
					m.splitMemo = map[splitKey][2]*Term{}
				}
				m.splitMemo[mk] = pair
			}
			a1, a2 := pair[0], pair[1]
			m.addPC(TEq(at, TConcat(a1, TStr(csep), a2)))
			m.addPC(TNot(TContains(a1, TStr(csep))))
			if m.freshAtoms[at] {
				// components of a non-vocabulary name are not constrained further
			}
			parts = append(parts, strConcat(cur, mkStrT(a1)))
			cur = Str{}
			at = a2
		}
		cur = strConcat(cur, mkStrT(at))
	}
	parts = append(parts, cur)
	return parts
}

// ---------- regexp ----------

type regexObj struct {
	re      *regexp.Regexp
	pattern string
	id      int
}

func (e *Engine) regexID(pattern string) int {
	regexMu.Lock()
	defer regexMu.Unlock()
	if id, ok := regexIDs[pattern]; ok {
		return id
	}
	id := len(regexList)
	regexIDs[pattern] = id
	regexList = append(regexList, regexp.MustCompile(pattern))
	return id
}

func registerMisc(e *Engine) {
	in := e.intrinsics
	mkRegex := func(m *Machine, pat Str, must bool) Value {
		p, ok := pat.Const()
		if !ok {
			// a pattern given on the command line: assumed to compile (an invalid one is
			// rejected by the tool at start-up); matching against it is not modelled
			o := &Opaque{kind: "regexp", data: &regexObj{pattern: "<symbolic>", id: -1}}
			if !must && len(pat.segs) == 1 {
				// a pattern taken as it is from a flag: assumed to compile (an invalid one is rejected at
				// start-up; stated assumption of the CLI checks)
				m.note("assumption: the --redactFieldsRegexp value is a valid regular expression")
				return Tuple{o, Iface{}}
			}
			if must {
				m.note("assumption: the --redactFieldsRegexp value is a valid regular expression")
				return o
			}
			// regexp.Compile on a computed pattern: it may be invalid, and the error text quotes the
			// pattern (uninterpreted function of the pattern, refined against the native compiler)
			emsg := TUF("pure:regexp.compileErr#0", SStr, pat.Term())
			if m.branch(TNot(TEq(emsg, TStr("")))) {
				return Tuple{(*Opaque)(nil), m.newError(mkStrT(emsg))}
			}
			return Tuple{o, Iface{}}
		}
		re, err := regexp.Compile(p)
		if err != nil {
			if must {
				panic(targetPanic{v: Iface{t: types.Typ[types.String], v: mkStr("regexp: Compile(" + strconv.Quote(p) + "): " + err.Error())}})
			}
			return Tuple{(*Opaque)(nil), m.newError(mkStr(err.Error()))}
		}
		o := &Opaque{kind: "regexp", data: &regexObj{re: re, pattern: p, id: e.regexID(p)}}
		if must {
			return o
		}
		return Tuple{o, Iface{}}
	}
	in["regexp.MustCompile"] = func(m *Machine, fr *frame, a []Value) Value { return mkRegex(m, argStr(a[0]), true) }
	in["regexp.Compile"] = func(m *Machine, fr *frame, a []Value) Value { return mkRegex(m, argStr(a[0]), false) }
	in["(*regexp.Regexp).MatchString"] = func(m *Machine, fr *frame, a []Value) Value {
		o, _ := a[0].(*Opaque)
		if o == nil {
			panic(targetPanic{runtime: "invalid memory address or nil pointer dereference (nil *regexp.Regexp)"})
		}
		ro := o.data.(*regexObj)
		s := argStr(a[1])
		if ro.re == nil {
			panic(abort("MatchString on a symbolic pattern"))
		}
		if c, ok := s.Const(); ok {
			return ro.re.MatchString(c)
		}
		// distribute over if-then-else so that constant alternatives are decided natively
		var match func(t *Term) *Term
		match = func(t *Term) *Term {
			if t.kind == KConst && t.sort == SStr {
				return TBool(ro.re.MatchString(t.s))
			}
			if t.kind == KApp && t.op == "ite" && len(t.args) == 3 {
				return TIte(t.args[0], match(t.args[1]), match(t.args[2]))
			}
			return TUF(fmt.Sprintf("re#%d", ro.id), SBool, t)
		}
		return mkBool(match(s.Term()))
	}
	in["(*regexp.Regexp).FindAllStringSubmatch"] = func(m *Machine, fr *frame, a []Value) Value {
		o := a[0].(*Opaque)
		ro := o.data.(*regexObj)
		s := argStr(a[1])
		n := a[2].(Num)
		if c, ok := s.Const(); ok && n.t == nil {
			res := ro.re.FindAllStringSubmatch(c, int(n.c))
			if res == nil {
				return Slice{}
			}
			outer := make([]Value, len(res))
			for i, r := range res {
				ss := make([]Str, len(r))
				for j, x := range r {
					ss[j] = mkStr(x)
				}
				outer[i] = mkStrSlice(ss)
			}
			return Slice{arr: &outer, len: len(outer), cap: len(outer)}
		}
		if s.b != nil && ro.pattern == `IXSCAN\s*\{([^}]+)\}` {
			return m.ixscanMatchB(s.b)
		}
		panic(abort("FindAllStringSubmatch on symbolic string"))
	}
	in["crypto/sha256.Sum256"] = func(m *Machine, fr *frame, a []Value) Value {
		s := a[0].(Slice)
		var str Str
		if s.rope != nil {
			str = *s.rope
		} else {
			str = bytesToStr(s)
		}
		out := make(Array, 32)
		if c, ok := str.Const(); ok {
			h := sha256.Sum256([]byte(c))
			for i := range out {
				out[i] = Num{c: int64(h[i])}
			}
			return out
		}
		t := str.Term()
		for i := range out {
			out[i] = Num{t: TUF(fmt.Sprintf("sha256byte#%d", i), SBV8, t)}
		}
		return out
	}
	in["slices.Contains[[]string,string]"] = nil // real code is executed
	delete(in, "slices.Contains[[]string,string]")

	in["os.Exit"] = func(m *Machine, fr *frame, a []Value) Value {
		m.events = append(m.events, Event{Kind: "exit", Args: []Value{a[0]}})
		panic(pathEnd{kind: "exit", code: a[0]})
	}
	in["time.Now"] = func(m *Machine, fr *frame, a []Value) Value {
		m.atomSeq++
		return &Opaque{kind: "time", data: fmt.Sprintf("now!%d", m.atomSeq)}
	}
	in["(time.Time).Unix"] = func(m *Machine, fr *frame, a []Value) Value {
		o, ok := a[0].(*Opaque)
		if !ok {
			panic(abort("Time.Unix on unmodelled time value"))
		}
		t := TVar("time."+o.data.(string), SInt)
		m.addPC(TCmp(">", t, TInt(1_000_000_000))) // contract: the clock is past 2001
		m.addPC(TCmp("<", t, TInt(1<<40)))
		m.recordInput("time."+o.data.(string), Num{t: t})
		return Num{t: t}
	}
	in["os.Getenv"] = func(m *Machine, fr *frame, a []Value) Value {
		name, ok := argStr(a[0]).Const()
		if !ok {
			panic(abort("os.Getenv symbolic name"))
		}
		if v, ok := m.inputs["env."+name]; ok {
			return v
		}
		if m.job != nil && strings.Contains(","+m.job.Params["symenv"]+",", ","+name+",") {
			v := mkStrT(TVar("env."+name, SStr))
			m.recordInput("env."+name, v)
			return v
		}
		// unset unless the harness provided it
		return Str{}
	}
	// os.LookupEnv: (value, present); a variable can be exported with an empty value
	in["os.LookupEnv"] = func(m *Machine, fr *frame, a []Value) Value {
		name, ok := argStr(a[0]).Const()
		if !ok {
			panic(abort("os.LookupEnv symbolic name"))
		}
		val := in["os.Getenv"](m, fr, a).(Str)
		if c, ok := val.Const(); ok && c == "" {
			if _, given := m.inputs["env."+name]; !given {
				return Tuple{Str{}, false}
			}
		}
		set := TVar("envset."+name, SBool)
		m.recordInput("envset."+name, mkBool(set))
		// a non-empty value means the variable is set
		m.addPC(TImplies(TNot(TEq(val.Term(), TStr(""))), set))
		return Tuple{val, mkBool(set)}
	}
}

var (
	regexMu   = &sortMutex{}
	regexIDs  = map[string]int{}
	regexList []*regexp.Regexp
)

type sortMutex struct{ ch chan struct{} }

func (s *sortMutex) Lock() {
	if s.ch == nil {
		panic("uninitialised")
	}
	s.ch <- struct{}{}
}
func (s *sortMutex) Unlock() { <-s.ch }

func init() { regexMu.ch = make(chan struct{}, 1) }

// ---------- errors ----------

func (m *Machine) newError(msg Str) Value {
	t := types.NewPointer(m.eng.namedType("errors", "errorString"))
	cell := new(Value)
	*cell = Struct{msg}
	return Iface{t: t, v: cell}
}

// errorText returns the message of an error value by calling its Error method.
func (m *Machine) errorText(fr *frame, v Iface) Str {
	f := m.prog.LookupMethod(v.t, nil, "Error")
	if f == nil {
		panic(abort(fmt.Sprintf("no Error method on %v", v.t)))
	}
	r := m.callSSA(fr, 0, f, []Value{v.v}, nil)
	return r.(Str)
}

// ---------- JSON ----------

type decState struct {
	toks      []Tok
	line      string // template line name ("" for concrete text)
	pos       int
	useNumber bool
	bad       bool // concrete text that failed to tokenise at some point
	badAt     int
	badMsg    string
	stack     []byte
}

type SymFloat struct{ text Str }

func (m *Machine) atomFor(line, hole, class string) *Term {
	return TVar(holeKey(m.job, line, hole, class), SStr)
}

// holeKey names the symbolic variable of a template hole. A line may share the holes of
// another line (Params["share.<line>"] = "<other>") except for the classes listed in
// Params["vary.<line>"] - used by two-run (self-composition) harnesses.
func holeKey(job *Job, line, hole, class string) string {
	if job != nil {
		if other := job.Params["share."+line]; other != "" {
			vary := false
			for _, c := range strings.Split(job.Params["vary."+line], ",") {
				if c == class {
					vary = true
				}
			}
			if !vary {
				return other + "." + hole
			}
		}
	}
	return line + "." + hole
}

func (m *Machine) piecesStr(line string, ps []Piece) Str {
	var out Str
	for _, p := range ps {
		if p.T != nil {
			out = strConcat(out, mkStrT(p.T))
		} else if p.Hole == "" {
			out = strConcat(out, mkStr(p.Const))
		} else {
			out = strConcat(out, mkStrT(m.atomFor(line, p.Hole, p.Class)))
		}
	}
	return out
}

// tokenizeConcrete produces the token list of concrete JSON text, recording the
// position of a syntax error if any.
func tokenizeConcrete(text string) *decState {
	st := &decState{}
	dec := json.NewDecoder(bytes.NewReader([]byte(text)))
	dec.UseNumber()
	for {
		tok, err := dec.Token()
		if err != nil {
			if err.Error() != "EOF" {
				st.bad = true
				st.badAt = len(st.toks)
				st.badMsg = err.Error()
			}
			break
		}
		switch v := tok.(type) {
		case json.Delim:
			st.toks = append(st.toks, Tok{Kind: TkDelim, Delim: byte(v)})
		case string:
			st.toks = append(st.toks, Tok{Kind: TkString, Pieces: []Piece{{Const: v}}})
		case json.Number:
			st.toks = append(st.toks, Tok{Kind: TkNumber, Pieces: []Piece{{Const: string(v)}}})
		case bool:
			st.toks = append(st.toks, Tok{Kind: TkBool, Bool: v})
		case nil:
			st.toks = append(st.toks, Tok{Kind: TkNull})
		}
	}
	return st
}

func registerJSON(e *Engine) {
	in := e.intrinsics
	in["bytes.NewReader"] = func(m *Machine, fr *frame, a []Value) Value {
		return &Opaque{kind: "bytes.Reader", data: a[0].(Slice)}
	}
	in["encoding/json.NewDecoder"] = func(m *Machine, fr *frame, a []Value) Value {
		r := a[0].(Iface)
		o, ok := r.v.(*Opaque)
		if !ok || o.kind != "bytes.Reader" {
			panic(abort("json.NewDecoder on unmodelled reader"))
		}
		sl := o.data.(Slice)
		var s Str
		if sl.rope != nil {
			s = *sl.rope
		} else {
			s = bytesToStr(sl)
		}
		if c, ok := s.Const(); ok {
			return &Opaque{kind: "json.Decoder", data: tokenizeConcrete(c)}
		}
		if len(s.segs) == 1 && s.segs[0].t != nil {
			if name, ok := m.lineOf(s.segs[0].t); ok {
				tpl := m.job.Lines[name]
				return &Opaque{kind: "json.Decoder", data: &decState{toks: tpl.Toks, line: name}}
			}
		}
		if st, ok := tokenizeRope(s); ok {
			m.note("contract: a line produced by the serialiser is read back by encoding/json as the token stream it was written from (unquote(jstr(x)) = x; number text unchanged)")
			return &Opaque{kind: "json.Decoder", data: st}
		}
		panic(abort("json.NewDecoder on symbolic text that is not a template line"))
	}
	in["(*encoding/json.Decoder).UseNumber"] = func(m *Machine, fr *frame, a []Value) Value {
		a[0].(*Opaque).data.(*decState).useNumber = true
		return nil
	}
	in["(*encoding/json.Decoder).More"] = func(m *Machine, fr *frame, a []Value) Value {
		st := a[0].(*Opaque).data.(*decState)
		if st.pos >= len(st.toks) {
			return false
		}
		t := st.toks[st.pos]
		return !(t.Kind == TkDelim && (t.Delim == ']' || t.Delim == '}'))
	}
	in["(*encoding/json.Decoder).Token"] = func(m *Machine, fr *frame, a []Value) Value {
		st := a[0].(*Opaque).data.(*decState)
		if st.pos >= len(st.toks) {
			if st.bad {
				return Tuple{Iface{}, m.newError(mkStr(st.badMsg))}
			}
			return Tuple{Iface{}, m.ioEOF()}
		}
		t := st.toks[st.pos]
		st.pos++
		switch t.Kind {
		case TkDelim:
			return Tuple{Iface{t: e.namedType("encoding/json", "Delim"), v: Num{c: int64(t.Delim)}}, Iface{}}
		case TkString:
			return Tuple{Iface{t: types.Typ[types.String], v: m.piecesStr(st.line, t.Pieces)}, Iface{}}
		case TkNumber:
			txt := m.piecesStr(st.line, t.Pieces)
			if st.useNumber {
				return Tuple{Iface{t: e.namedType("encoding/json", "Number"), v: txt}, Iface{}}
			}
			if c, ok := txt.Const(); ok {
				f, err := strconv.ParseFloat(c, 64)
				if err != nil {
					return Tuple{Iface{}, m.newError(mkStr(err.Error()))}
				}
				return Tuple{Iface{t: types.Typ[types.Float64], v: f}, Iface{}}
			}
			return Tuple{Iface{t: types.Typ[types.Float64], v: SymFloat{txt}}, Iface{}}
		case TkBool:
			if t.BoolT != nil {
				return Tuple{Iface{t: types.Typ[types.Bool], v: mkBool(t.BoolT)}, Iface{}}
			}
			if t.Hole != "" {
				return Tuple{Iface{t: types.Typ[types.Bool], v: mkBool(TVar(holeKey(m.job, st.line, t.Hole, "B"), SBool))}, Iface{}}
			}
			return Tuple{Iface{t: types.Typ[types.Bool], v: t.Bool}, Iface{}}
		default:
			return Tuple{Iface{}, Iface{}}
		}
	}
	in["encoding/json.Marshal"] = func(m *Machine, fr *frame, a []Value) Value {
		s, err := m.marshalJSON(a[0])
		if err != "" {
			return Tuple{Slice{}, m.newError(mkStr(err))}
		}
		cp := s
		return Tuple{Slice{rope: &cp}, Iface{}}
	}
	// bytes.Buffer as rope accumulator
	in["(*bytes.Buffer).WriteByte"] = func(m *Machine, fr *frame, a []Value) Value {
		n := a[1].(Num)
		if n.t != nil {
			panic(abort("Buffer.WriteByte symbolic"))
		}
		m.bufAppend(a[0], mkStr(string([]byte{byte(n.c)})))
		return Iface{}
	}
	in["(*bytes.Buffer).Write"] = func(m *Machine, fr *frame, a []Value) Value {
		s := sliceToStr(a[1].(Slice))
		m.bufAppend(a[0], s)
		return Tuple{lenOfStr(s), Iface{}}
	}
	in["(*bytes.Buffer).WriteString"] = func(m *Machine, fr *frame, a []Value) Value {
		s := argStr(a[1])
		m.bufAppend(a[0], s)
		return Tuple{lenOfStr(s), Iface{}}
	}
	in["(*bytes.Buffer).AvailableBuffer"] = func(m *Machine, fr *frame, a []Value) Value {
		arr := []Value{}
		return Slice{arr: &arr}
	}
	in["(*bytes.Buffer).Bytes"] = func(m *Machine, fr *frame, a []Value) Value {
		s := m.bufGet(a[0])
		return strToBytes(s)
	}
	in["(*bytes.Buffer).String"] = func(m *Machine, fr *frame, a []Value) Value {
		return m.bufGet(a[0])
	}
	in["(*bytes.Buffer).Len"] = func(m *Machine, fr *frame, a []Value) Value {
		return lenOfStr(m.bufGet(a[0]))
	}
}

func lenOfStr(s Str) Num {
	if bs, ok := s.bytesB(); ok {
		return Num{c: int64(len(bs))}
	}
	return Num{t: TLen(s.Term())}
}

func sliceToStr(sl Slice) Str {
	if sl.rope != nil {
		return *sl.rope
	}
	if sl.arr == nil {
		return Str{}
	}
	return bytesToStr(sl)
}

func (m *Machine) lineOf(t *Term) (string, bool) {
	if t.kind == KVar && strings.HasPrefix(t.op, "line!") {
		return t.op[5:], true
	}
	return "", false
}

func (m *Machine) ioEOF() Value {
	g := m.prog.ImportedPackage("io").Var("EOF")
	p := m.global(g).(*Value)
	return *p
}

func (m *Machine) bufCell(recv Value) *Value {
	p, ok := recv.(*Value)
	if !ok || p == nil {
		panic(abort("bytes.Buffer method on unexpected receiver"))
	}
	return p
}

func (m *Machine) bufAppend(recv Value, s Str) {
	p := m.bufCell(recv)
	c := strConcat(m.bufGet(recv), s)
	st := (*p).(Struct)
	st[0] = Slice{rope: &c}
}

func (m *Machine) bufGet(recv Value) Str {
	p := m.bufCell(recv)
	st := (*p).(Struct)
	return sliceToStr(st[0].(Slice))
}

// marshalJSON models encoding/json.Marshal for the value kinds the repository passes.
func (m *Machine) marshalJSON(v Value) (Str, string) {
	itf, ok := v.(Iface)
	if !ok {
		panic(abort(fmt.Sprintf("json.Marshal of %T", v)))
	}
	if itf.t == nil {
		return mkStr("null"), ""
	}
	named, _ := itf.t.(*types.Named)
	switch pv := itf.v.(type) {
	case Str:
		if named != nil && named.Obj().Name() == "Number" && named.Obj().Pkg().Path() == "encoding/json" {
			if c, ok := pv.Const(); ok {
				if c == "" {
					return mkStr("0"), ""
				}
				if !json.Valid([]byte(c)) || !isJSONNumber(c) {
					return Str{}, "json: invalid number literal " + strconv.Quote(c)
				}
				return mkStr(c), ""
			}
			// contract: number text delivered by the decoder is a valid literal
			return pv, ""
		}
		if c, ok := pv.Const(); ok {
			b, _ := json.Marshal(c)
			return mkStr(string(b)), ""
		}
		return mkStrT(TUF("jstr", SStr, pv.Term())), ""
	case bool:
		if pv {
			return mkStr("true"), ""
		}
		return mkStr("false"), ""
	case *Term:
		return mkStrT(TIte(pv, TStr("true"), TStr("false"))), ""
	case float64:
		b, err := json.Marshal(pv)
		if err != nil {
			return Str{}, err.Error()
		}
		return mkStr(string(b)), ""
	case SymFloat:
		return mkStrT(TUF("fmtfloat", SStr, pv.text.Term())), ""
	case Num:
		if pv.t != nil {
			panic(abort("json.Marshal of symbolic integer"))
		}
		_, signed, _ := intInfo(itf.t)
		if signed {
			return mkStr(strconv.FormatInt(pv.c, 10)), ""
		}
		return mkStr(strconv.FormatUint(uint64(pv.c), 10)), ""
	case Slice:
		if pv.rope != nil {
			panic(abort("json.Marshal of []byte view"))
		}
		if pv.IsNil() {
			return mkStr("null"), ""
		}
		st, isSlice := itf.t.Underlying().(*types.Slice)
		if !isSlice {
			panic(abort("json.Marshal slice of unexpected type"))
		}
		if b, ok := st.Elem().Underlying().(*types.Basic); ok && b.Kind() == types.Uint8 {
			panic(abort("json.Marshal of []byte"))
		}
		out := mkStr("[")
		for i := 0; i < pv.len; i++ {
			if i > 0 {
				out = strConcat(out, mkStr(","))
			}
			ev := *pv.At(i)
			if _, isIf := st.Elem().Underlying().(*types.Interface); !isIf {
				ev = Iface{t: st.Elem(), v: ev}
			}
			s, err := m.marshalJSON(ev)
			if err != "" {
				return Str{}, err
			}
			out = strConcat(out, s)
		}
		return strConcat(out, mkStr("]")), ""
	case *Value:
		pt, isPtr := itf.t.Underlying().(*types.Pointer)
		if !isPtr {
			break
		}
		if pv == nil {
			return mkStr("null"), ""
		}
		if hasMarshaler(m, itf.t) {
			panic(abort("json.Marshal of type with MarshalJSON: " + itf.t.String()))
		}
		if stt, ok := pt.Elem().Underlying().(*types.Struct); ok {
			for i := 0; i < stt.NumFields(); i++ {
				if stt.Field(i).Exported() {
					panic(abort("json.Marshal of struct with exported fields: " + itf.t.String()))
				}
			}
			return mkStr("{}"), ""
		}
	}
	panic(abort(fmt.Sprintf("json.Marshal of %v (%T)", itf.t, itf.v)))
}

func hasMarshaler(m *Machine, t types.Type) bool {
	ms := m.prog.MethodSets.MethodSet(t)
	for i := 0; i < ms.Len(); i++ {
		n := ms.At(i).Obj().Name()
		if n == "MarshalJSON" || n == "MarshalText" {
			return true
		}
	}
	return false
}

var numRe = regexp.MustCompile(`^-?(0|[1-9][0-9]*)(\.[0-9]+)?([eE][-+]?[0-9]+)?$`)

func isJSONNumber(s string) bool { return numRe.MatchString(s) }

var _ = sort.Strings


// tokenizeRope re-tokenises a rope produced by the serialiser: constant segments are
// lexed as JSON text; a segment jstr(x) is one string token with content x; an
// ite(b,"true","false") segment is a boolean token; any other term is number text.
func tokenizeRope(s Str) (*decState, bool) {
	st := &decState{}
	for _, g := range s.segs {
		if g.t != nil {
			t := g.t
			switch {
			case t.kind == KApp && t.uf && t.op == "jstr":
				st.toks = append(st.toks, Tok{Kind: TkString, Pieces: []Piece{{T: t.args[0]}}})
			case t.kind == KApp && t.op == "ite" && t.sort == SStr && len(t.args) == 3 && t.args[1] == TStr("true") && t.args[2] == TStr("false"):
				st.toks = append(st.toks, Tok{Kind: TkBool, BoolT: t.args[0]})
			case t.sort == SStr:
				st.toks = append(st.toks, Tok{Kind: TkNumber, Pieces: []Piece{{T: t}}})
			default:
				return nil, false
			}
			continue
		}
		txt := g.c
		for i := 0; i < len(txt); {
			c := txt[i]
			switch {
			case c == ' ' || c == ',' || c == ':' || c == '\t' || c == '\n' || c == '\r':
				i++
			case c == '{' || c == '}' || c == '[' || c == ']':
				st.toks = append(st.toks, Tok{Kind: TkDelim, Delim: c})
				i++
			case c == '"':
				j := i + 1
				for j < len(txt) && txt[j] != '"' {
					if txt[j] == '\\' {
						j++
					}
					j++
				}
				if j >= len(txt) {
					return nil, false
				}
				var v string
				if err := json.Unmarshal([]byte(txt[i:j+1]), &v); err != nil {
					return nil, false
				}
				st.toks = append(st.toks, Tok{Kind: TkString, Pieces: []Piece{{Const: v}}})
				i = j + 1
			case strings.HasPrefix(txt[i:], "true"):
				st.toks = append(st.toks, Tok{Kind: TkBool, Bool: true})
				i += 4
			case strings.HasPrefix(txt[i:], "false"):
				st.toks = append(st.toks, Tok{Kind: TkBool, Bool: false})
				i += 5
			case strings.HasPrefix(txt[i:], "null"):
				st.toks = append(st.toks, Tok{Kind: TkNull})
				i += 4
			case c == '-' || (c >= '0' && c <= '9'):
				j := i
				for j < len(txt) && strings.IndexByte("+-0123456789.eE", txt[j]) >= 0 {
					j++
				}
				if !isJSONNumber(txt[i:j]) {
					return nil, false
				}
				st.toks = append(st.toks, Tok{Kind: TkNumber, Pieces: []Piece{{Const: txt[i:j]}}})
				i = j
			default:
				return nil, false
			}
		}
	}
	return st, true
}
