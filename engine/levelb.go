package main

// Level-B (byte-level) string helpers: strings of concrete length whose bytes are terms.

func (m *Machine) trimSpaceB(s Str) Value {
	panic(abort("strings.TrimSpace on symbolic string"))
}

func (m *Machine) splitB(bs []Num, sep byte, n int) []Str {
	panic(abort("strings.Split on level-B string"))
}

func (m *Machine) replaceAllB(bs []Num, from []Num, to Str) Value {
	panic(abort("strings.ReplaceAll on level-B string"))
}

func (m *Machine) ixscanMatchB(bs []Num) Value {
	panic(abort("FindAllStringSubmatch on level-B string"))
}
