package main

import (
	"fmt"
	"go/types"
	"strconv"
	"strings"
)

func registerFmt(e *Engine) {
	in := e.intrinsics
	in["fmt.Sprintf"] = func(m *Machine, fr *frame, a []Value) Value {
		return m.sprintf(fr, argStr(a[0]), ifaceArgs(a[1]))
	}
	in["fmt.Sprint"] = func(m *Machine, fr *frame, a []Value) Value {
		return m.sprint(fr, ifaceArgs(a[0]), false)
	}
	in["fmt.Sprintln"] = func(m *Machine, fr *frame, a []Value) Value {
		return m.sprint(fr, ifaceArgs(a[0]), true)
	}
	in["fmt.Errorf"] = func(m *Machine, fr *frame, a []Value) Value {
		return m.newError(m.sprintf(fr, argStr(a[0]), ifaceArgs(a[1])))
	}
	in["errors.New"] = func(m *Machine, fr *frame, a []Value) Value {
		return m.newError(argStr(a[0]))
	}
	in["fmt.Fprintf"] = func(m *Machine, fr *frame, a []Value) Value {
		s := m.sprintf(fr, argStr(a[1]), ifaceArgs(a[2]))
		return m.writeTo(fr, a[0].(Iface), s)
	}
	in["fmt.Fprintln"] = func(m *Machine, fr *frame, a []Value) Value {
		s := m.sprint(fr, ifaceArgs(a[1]), true)
		return m.writeTo(fr, a[0].(Iface), s)
	}
	in["fmt.Fprint"] = func(m *Machine, fr *frame, a []Value) Value {
		s := m.sprint(fr, ifaceArgs(a[1]), false)
		return m.writeTo(fr, a[0].(Iface), s)
	}
	in["fmt.Printf"] = func(m *Machine, fr *frame, a []Value) Value {
		s := m.sprintf(fr, argStr(a[0]), ifaceArgs(a[1]))
		return m.writeTo(fr, m.stdStream("stdout"), s)
	}
	in["fmt.Println"] = func(m *Machine, fr *frame, a []Value) Value {
		s := m.sprint(fr, ifaceArgs(a[0]), true)
		return m.writeTo(fr, m.stdStream("stdout"), s)
	}
	in["fmt.Print"] = func(m *Machine, fr *frame, a []Value) Value {
		s := m.sprint(fr, ifaceArgs(a[0]), false)
		return m.writeTo(fr, m.stdStream("stdout"), s)
	}
}

func ifaceArgs(v Value) []Iface {
	s := v.(Slice)
	out := make([]Iface, s.len)
	for i := range out {
		out[i] = (*s.At(i)).(Iface)
	}
	return out
}

func (m *Machine) stdStream(name string) Iface {
	g := m.prog.ImportedPackage("os").Var(strings.ToUpper(name[:1]) + name[1:])
	p := m.global(g).(*Value)
	return Iface{t: g.Type().(*types.Pointer).Elem(), v: *p}
}

// writeTo performs exactly one Write call on w with the formatted text.
func (m *Machine) writeTo(fr *frame, w Iface, s Str) Value {
	if w.t == nil {
		panic(targetPanic{runtime: "invalid memory address or nil pointer dereference (nil io.Writer)"})
	}
	f := m.prog.LookupMethod(w.t, nil, "Write")
	if f == nil {
		panic(abort(fmt.Sprintf("no Write method on %v", w.t)))
	}
	cp := s
	return m.callSSA(fr, 0, f, []Value{w.v, Slice{rope: &cp}}, nil)
}

func (m *Machine) fmtValue(fr *frame, verb byte, a Iface) Str {
	if a.t == nil {
		if verb == 'v' {
			return mkStr("<nil>")
		}
		return mkStr("%!" + string(verb) + "(<nil>)")
	}
	// errors and Stringers
	if verb == 'v' || verb == 's' || verb == 'w' || verb == 'q' {
		if types.Implements(a.t, errorIface) {
			f := m.prog.LookupMethod(a.t, nil, "Error")
			if isNilPtr(a.v) {
				return mkStr("<nil>")
			}
			return m.callSSA(fr, 0, f, []Value{a.v}, nil).(Str)
		}
	}
	// Stringers (value method sets only: a pointer-receiver String is not used for a value)
	if verb == 'v' || verb == 's' {
		if _, isItf := a.t.Underlying().(*types.Interface); !isItf {
			if sel := m.prog.MethodSets.MethodSet(a.t).Lookup(nil, "String"); sel != nil {
				if f := m.prog.MethodValue(sel); f != nil && f.Signature.Params().Len() == 0 && f.Signature.Results().Len() == 1 {
					if r, ok := m.callSSA(fr, 0, f, []Value{a.v}, nil).(Str); ok {
						return r
					}
				}
			}
		}
	}
	if st, ok := a.v.(Struct); ok && (verb == 'v' || verb == 's') {
		stt, isSt := a.t.Underlying().(*types.Struct)
		if isSt {
			out := mkStr("{")
			for i := range st {
				if i > 0 {
					out = strConcat(out, mkStr(" "))
				}
				fv := st[i]
				it, isIf := fv.(Iface)
				if !isIf {
					it = Iface{t: stt.Field(i).Type(), v: fv}
				}
				out = strConcat(out, m.fmtValue(fr, verb, it))
			}
			return strConcat(out, mkStr("}"))
		}
	}
	switch v := a.v.(type) {
	case Str:
		switch verb {
		case 's', 'v':
			return v
		case 'q':
			if c, ok := v.Const(); ok {
				return mkStr(strconv.Quote(c))
			}
			return mkStrT(TUF("goquote", SStr, v.Term()))
		case 'x':
			if c, ok := v.Const(); ok {
				return mkStr(fmt.Sprintf("%x", c))
			}
		}
	case Num:
		_, signed, _ := intInfo(a.t)
		switch verb {
		case 'd', 'v':
			if v.t == nil {
				if signed {
					return mkStr(strconv.FormatInt(v.c, 10))
				}
				return mkStr(strconv.FormatUint(uint64(v.c), 10))
			}
			return mkStrT(TUF("itoa", SStr, bvToInt(v.t)))
		case 'x':
			if v.t == nil {
				return mkStr(strconv.FormatUint(uint64(v.c), 16))
			}
		case 'c':
			if v.t == nil {
				return mkStr(string(rune(v.c)))
			}
		}
	case bool:
		return mkStr(strconv.FormatBool(v))
	case *Term:
		return mkStrT(TIte(v, TStr("true"), TStr("false")))
	case float64:
		if verb == 'v' {
			return mkStr(fmt.Sprintf("%v", v))
		}
		return mkStr(fmt.Sprintf("%"+string(verb), v))
	case Slice:
		// []byte with %x: hex of each byte; %s/%v of []byte
		if st, ok := a.t.Underlying().(*types.Slice); ok {
			if b, ok := st.Elem().Underlying().(*types.Basic); ok && b.Kind() == types.Uint8 {
				if verb == 'x' {
					return m.hexBytes(v)
				}
				if verb == 's' {
					return sliceToStr(v)
				}
			}
			if verb == 'v' || verb == 's' {
				out := mkStr("[")
				for i := 0; i < v.len; i++ {
					if i > 0 {
						out = strConcat(out, mkStr(" "))
					}
					ev := *v.At(i)
					it, isIf := ev.(Iface)
					if !isIf {
						it = Iface{t: st.Elem(), v: ev}
					}
					out = strConcat(out, m.fmtValue(fr, verb, it))
				}
				return strConcat(out, mkStr("]"))
			}
		}
	}
	panic(abort(fmt.Sprintf("fmt verb %%%c of %v (%T)", verb, a.t, a.v)))
}

var errorIface = types.Universe.Lookup("error").Type().Underlying().(*types.Interface)

func (m *Machine) hexBytes(s Slice) Str {
	if s.rope != nil {
		if c, ok := s.rope.Const(); ok {
			return mkStr(fmt.Sprintf("%x", c))
		}
		return mkStrT(TUF("hexstr", SStr, s.rope.Term()))
	}
	var out Str
	for i := 0; i < s.len; i++ {
		n := (*s.At(i)).(Num)
		if n.t == nil {
			out = strConcat(out, mkStr(fmt.Sprintf("%02x", byte(n.c))))
		} else {
			out = strConcat(out, mkStrT(TUF("hexbyte", SStr, n.t)))
		}
	}
	return out
}

func (m *Machine) sprintf(fr *frame, format Str, args []Iface) Str {
	f, ok := format.Const()
	if !ok {
		panic(abort("Sprintf with symbolic format"))
	}
	var out Str
	ai := 0
	for i := 0; i < len(f); i++ {
		c := f[i]
		if c != '%' {
			j := i
			for j < len(f) && f[j] != '%' {
				j++
			}
			out = strConcat(out, mkStr(f[i:j]))
			i = j - 1
			continue
		}
		i++
		if i >= len(f) {
			out = strConcat(out, mkStr("%!(NOVERB)"))
			break
		}
		// flags / width are not used by the repository except %02x-like forms
		spec := ""
		for i < len(f) && strings.IndexByte("+-# 0123456789.", f[i]) >= 0 {
			spec += string(f[i])
			i++
		}
		verb := f[i]
		if verb == '%' {
			out = strConcat(out, mkStr("%"))
			continue
		}
		if ai >= len(args) {
			out = strConcat(out, mkStr("%!"+string(verb)+"(MISSING)"))
			continue
		}
		arg := args[ai]
		ai++
		if spec != "" {
			// only concrete arguments with width specs
			if n, ok := arg.v.(Num); ok && n.t == nil {
				out = strConcat(out, mkStr(fmt.Sprintf("%"+spec+string(verb), n.c)))
				continue
			}
			if s, ok := arg.v.(Str); ok {
				if cs, ok := s.Const(); ok {
					out = strConcat(out, mkStr(fmt.Sprintf("%"+spec+string(verb), cs)))
					continue
				}
			}
			panic(abort("Sprintf width/flags with symbolic argument"))
		}
		out = strConcat(out, m.fmtValue(fr, verb, arg))
	}
	if ai < len(args) {
		out = strConcat(out, mkStr("%!(EXTRA ...)"))
	}
	return out
}

func (m *Machine) sprint(fr *frame, args []Iface, ln bool) Str {
	var out Str
	for i, a := range args {
		if i > 0 {
			if ln {
				out = strConcat(out, mkStr(" "))
			} else {
				// Sprint adds spaces between operands when neither is a string
				_, s1 := args[i-1].v.(Str)
				_, s2 := a.v.(Str)
				if !s1 && !s2 {
					out = strConcat(out, mkStr(" "))
				}
			}
		}
		out = strConcat(out, m.fmtValue(fr, 'v', a))
	}
	if ln {
		out = strConcat(out, mkStr("\n"))
	}
	return out
}
