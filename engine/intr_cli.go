package main

// CLI / operating-system boundary: cobra + pflag (flag binding and dispatch), file-system
// calls, opaque third-party packages, and the generic "cut" of functions that a job
// treats as observable events instead of executing them.

import (
	"fmt"
	"go/types"
	"os"
	"strings"

	"golang.org/x/tools/go/ssa"
)

type flagBinding struct {
	ptr  *Value
	name string
	kind string // "string" | "bool" | "int" | "stringArray"
}

type cliState struct {
	bindings []flagBinding
	kids     map[*Value][]*Value // command -> sub-commands
}

func (m *Machine) cli() *cliState {
	if m.cliSt == nil {
		m.cliSt = &cliState{kids: map[*Value][]*Value{}}
	}
	return m.cliSt
}

// fsEntry: symbolic state of one path of the file system.
type fsEntry struct {
	kind    string // "absent" | "file" | "dir" | "unreadable" | "noparent"
	content Str
}

func (m *Machine) fsLookup(name Str) *fsEntry {
	key := name.Term().SMT()
	if m.fs == nil {
		m.fs = map[string]*fsEntry{}
	}
	if e, ok := m.fs[key]; ok {
		return e
	}
	// initial state chosen by the solver among the classes the job allows
	kinds := []string{"absent", "file"}
	if m.job != nil && m.job.Params["fs.kinds"] != "" {
		kinds = strings.Split(m.job.Params["fs.kinds"], ",")
	}
	k := kinds[m.choose(len(kinds), nil)]
	e := &fsEntry{kind: k}
	if k == "file" {
		m.atomSeq++
		e.content = mkStrT(TVar(fmt.Sprintf("fs.content!%d", m.atomSeq), SStr))
		m.recordInput(fmt.Sprintf("fs.content!%d", m.atomSeq), e.content)
	}
	m.recordInput("fs.kind:"+key, mkStr(k))
	m.fs[key] = e
	return e
}

func (m *Machine) envFail(what string) {
	m.events = append(m.events, Event{Kind: "envfail", Args: []Value{mkStr(what)}})
}

// pathError builds an *fs.PathError-like error; os.IsNotExist is answered from the tag.
func (m *Machine) osError(msg string, notExist bool) Value {
	e := m.newError(mkStr(msg)).(Iface)
	if notExist {
		if m.notExistErrs == nil {
			m.notExistErrs = map[*Value]bool{}
		}
		m.notExistErrs[e.v.(*Value)] = true
	}
	return e
}

func registerCLI(e *Engine) {
	in := e.intrinsics
	// ----- pflag / cobra -----
	const PF = "(*github.com/spf13/pflag.FlagSet)."
	in["github.com/spf13/pflag.NewFlagSet"] = func(m *Machine, fr *frame, a []Value) Value {
		return &Opaque{kind: "flagset", data: a[0]}
	}
	in[PF+"Name"] = func(m *Machine, fr *frame, a []Value) Value { return a[0].(*Opaque).data.(Str) }
	bind := func(kind string) intrinsic {
		return func(m *Machine, fr *frame, a []Value) Value {
			p := a[1].(*Value)
			name := constArg(a[2], "flag name")
			m.cli().bindings = append(m.cli().bindings, flagBinding{p, name, kind})
			*p = copyVal(a[4]) // default value
			return nil
		}
	}
	in[PF+"StringVarP"] = bind("string")
	in[PF+"BoolVarP"] = bind("bool")
	in[PF+"IntVarP"] = bind("int")
	in[PF+"StringArrayVarP"] = bind("stringArray")
	in[PF+"AddFlagSet"] = func(m *Machine, fr *frame, a []Value) Value { return nil }
	in[PF+"FlagUsagesWrapped"] = func(m *Machine, fr *frame, a []Value) Value { return mkStr("") }
	const CB = "(*github.com/spf13/cobra.Command)."
	in["github.com/spf13/cobra.MaximumNArgs"] = func(m *Machine, fr *frame, a []Value) Value { return (*ssa.Function)(nil) }
	in["github.com/spf13/cobra.ExactArgs"] = func(m *Machine, fr *frame, a []Value) Value { return (*ssa.Function)(nil) }
	in[CB+"Flags"] = func(m *Machine, fr *frame, a []Value) Value { return &Opaque{kind: "flagset", data: mkStr("cmd")} }
	in[CB+"SetHelpFunc"] = func(m *Machine, fr *frame, a []Value) Value { return nil }
	in[CB+"UseLine"] = func(m *Machine, fr *frame, a []Value) Value { return mkStr("") }
	in[CB+"Context"] = func(m *Machine, fr *frame, a []Value) Value { return Iface{} }
	in[CB+"AddCommand"] = func(m *Machine, fr *frame, a []Value) Value {
		root := a[0].(*Value)
		kids := a[1].(Slice)
		for i := 0; i < kids.len; i++ {
			m.cli().kids[root] = append(m.cli().kids[root], (*kids.At(i)).(*Value))
		}
		return nil
	}
	in[CB+"Execute"] = func(m *Machine, fr *frame, a []Value) Value {
		root := a[0].(*Value)
		want := m.job.Params["subcommand"]
		ct := e.namedType("github.com/spf13/cobra", "Command").Underlying().(*types.Struct)
		var cmd *Value
		for _, k := range m.cli().kids[root] {
			use, _ := (*k).(Struct)[fieldIndex(ct, "Use")].(Str).Const()
			if strings.HasPrefix(use, want) {
				cmd = k
			}
		}
		if cmd == nil {
			panic(abort("cobra: no sub-command " + want))
		}
		// every bound flag variable := arbitrary value named after its flag
		fix := m.job.Params["fixflags"] == "encrypt-file-mode"
		for _, b := range m.cli().bindings {
			if fix && b.name != "encryptionKeyFile" && b.name != "outputFile" && b.name != "encrypt" {
				continue // keeps its default
			}
			switch b.kind {
			case "string":
				v := mkStrT(TVar("flag."+b.name, SStr))
				m.recordInput("flag."+b.name, v)
				*b.ptr = v
			case "bool":
				v := mkBool(TVar("flag."+b.name, SBool))
				m.recordInput("flag."+b.name, v)
				*b.ptr = v
			case "int":
				t := TVar("flag."+b.name, SInt)
				m.addPC(TCmp(">=", t, TInt(-(1 << 62))))
				m.addPC(TCmp("<=", t, TInt(1<<62)))
				m.recordInput("flag."+b.name, Num{t: t})
				*b.ptr = Num{t: t}
			case "stringArray":
				n := m.choose(2, nil)
				m.recordInput("flagcount."+b.name, Num{c: int64(n)})
				if n == 0 {
					*b.ptr = Slice{}
				} else {
					v := mkStrT(TVar("flag."+b.name+"[0]", SStr))
					m.recordInput("flag."+b.name+"[0]", v)
					*b.ptr = mkStrSlice([]Str{v})
				}
			}
		}
		// positional arguments: cobra enforces the Args validator before Run
		nargs := 0
		if want == "redact" && fix {
			nargs = 1
		} else if want == "redact" {
			nargs = m.choose(2, nil)
		} else if want == "decrypt" {
			nargs = 1
		}
		m.recordInput("nargs", Num{c: int64(nargs)})
		var args []Str
		for i := 0; i < nargs; i++ {
			v := mkStrT(TVar(fmt.Sprintf("arg%d", i), SStr))
			m.recordInput(fmt.Sprintf("arg%d", i), v)
			args = append(args, v)
		}
		run := (*cmd).(Struct)[fieldIndex(ct, "Run")]
		m.events = append(m.events, Event{Kind: "run", Args: []Value{mkStr(want)}})
		m.call(fr, 0, run, []Value{cmd, mkStrSlice(args)})
		return Iface{}
	}
	// ----- os -----
	in["(*os.File).Stat"] = func(m *Machine, fr *frame, a []Value) Value {
		o, _ := a[0].(*Opaque)
		if o == nil {
			return Tuple{Iface{}, m.newError(mkStr("invalid argument"))}
		}
		f := o.data.(*fileObj)
		fi := &Opaque{kind: "fileinfo", data: f.stream}
		return Tuple{Iface{t: types.NewPointer(e.namedType("os", "fileStat")), v: fi}, Iface{}}
	}
	in["(*os.fileStat).Mode"] = func(m *Machine, fr *frame, a []Value) Value {
		o := a[0].(*Opaque)
		if o.data == "stdin" {
			piped := TVar("stdinPiped", SBool)
			m.recordInput("stdinPiped", mkBool(piped))
			if m.branch(piped) {
				return Num{c: 0}
			}
			return Num{c: int64(os.ModeCharDevice)}
		}
		if o.data == "dir" {
			return Num{c: int64(os.ModeDir)}
		}
		if o.data == "special" {
			return Num{c: int64(os.ModeDevice | os.ModeCharDevice)}
		}
		return Num{c: 0}
	}
	in["(*os.fileStat).IsDir"] = func(m *Machine, fr *frame, a []Value) Value {
		o, _ := a[0].(*Opaque)
		if o == nil {
			panic(targetPanic{runtime: "invalid memory address or nil pointer dereference (nil FileInfo)"})
		}
		return o.data == "dir"
	}
	in["os.Stat"] = func(m *Machine, fr *frame, a []Value) Value {
		name := argStr(a[0])
		ent := m.fsLookup(name)
		m.events = append(m.events, Event{Kind: "stat", Args: []Value{name}})
		fst := types.NewPointer(e.namedType("os", "fileStat"))
		switch ent.kind {
		case "absent", "noparent":
			return Tuple{Iface{t: fst, v: (*Opaque)(nil)}, m.osError("stat: no such file or directory", true)}
		case "dir":
			return Tuple{Iface{t: fst, v: &Opaque{kind: "fileinfo", data: "dir"}}, Iface{}}
		case "staterror":
			return Tuple{Iface{t: fst, v: (*Opaque)(nil)}, m.osError("stat: permission denied", false)}
		case "special":
			// a device / FIFO such as /dev/null: exists, neither regular nor a directory
			return Tuple{Iface{t: fst, v: &Opaque{kind: "fileinfo", data: "special"}}, Iface{}}
		}
		fi := &Opaque{kind: "fileinfo", data: "file"}
		if m.fileInfos == nil {
			m.fileInfos = map[*Opaque]*fsEntry{}
		}
		m.fileInfos[fi] = ent
		return Tuple{Iface{t: fst, v: fi}, Iface{}}
	}
	in["(*os.fileStat).Size"] = func(m *Machine, fr *frame, a []Value) Value {
		o, _ := a[0].(*Opaque)
		if o == nil {
			panic(targetPanic{runtime: "invalid memory address or nil pointer dereference (nil FileInfo)"})
		}
		if ent, ok := m.fileInfos[o]; ok {
			return lenOfStr(ent.content)
		}
		return Num{c: 4096}
	}
	in["os.IsNotExist"] = func(m *Machine, fr *frame, a []Value) Value {
		itf := a[0].(Iface)
		if itf.t == nil {
			return false
		}
		p, _ := itf.v.(*Value)
		return m.notExistErrs[p]
	}
	in["os.ReadFile"] = func(m *Machine, fr *frame, a []Value) Value {
		name := argStr(a[0])
		ent := m.fsLookup(name)
		m.events = append(m.events, Event{Kind: "readfile", Args: []Value{name}})
		switch ent.kind {
		case "file":
			c := ent.content
			return Tuple{Slice{rope: &c}, Iface{}}
		case "special":
			// reads back empty whatever was written to it (/dev/null)
			return Tuple{Slice{rope: &Str{}}, Iface{}}
		case "absent", "noparent":
			m.envFail("readfile")
			return Tuple{Slice{}, m.osError("open: no such file or directory", true)}
		}
		m.envFail("readfile")
		return Tuple{Slice{}, m.osError("read: is a directory or permission denied", false)}
	}
	in["os.WriteFile"] = func(m *Machine, fr *frame, a []Value) Value {
		name := argStr(a[0])
		data := sliceToStr(a[1].(Slice))
		ent := m.fsLookup(name)
		m.events = append(m.events, Event{Kind: "writefile", Args: []Value{name, data, a[2]}})
		if ent.kind == "dir" || ent.kind == "noparent" || ent.kind == "unreadable" {
			m.envFail("writefile")
			return m.osError("open: cannot write", false)
		}
		if m.job != nil && m.job.Params["writeFileMayFail"] == "yes" && m.choose(2, nil) == 1 {
			m.envFail("writefile")
			return m.osError("write: no space left on device", false)
		}
		if ent.kind == "special" {
			return Iface{} // accepted and discarded
		}
		ent.kind = "file"
		ent.content = data
		return Iface{}
	}
	in["os.Create"] = func(m *Machine, fr *frame, a []Value) Value {
		name := argStr(a[0])
		m.events = append(m.events, Event{Kind: "create", Args: []Value{name}})
		if m.job != nil && m.job.Params["createMayFail"] == "yes" && m.choose(2, nil) == 1 {
			m.envFail("create")
			return Tuple{(*Opaque)(nil), m.osError("open: permission denied", false)}
		}
		return Tuple{&Opaque{kind: "file", data: &fileObj{name: name}}, Iface{}}
	}
	in["os.Remove"] = func(m *Machine, fr *frame, a []Value) Value {
		name := argStr(a[0])
		m.events = append(m.events, Event{Kind: "remove", Args: []Value{name}})
		if m.job != nil && m.job.Params["removeMayFail"] == "yes" && m.choose(2, nil) == 1 {
			m.envFail("remove")
			return m.osError("remove: permission denied", false)
		}
		return Iface{}
	}
	in["os.CreateTemp"] = func(m *Machine, fr *frame, a []Value) Value {
		pat := argStr(a[1])
		m.atomSeq++
		if m.job != nil && m.job.Params["createTempMayFail"] == "yes" && m.choose(2, nil) == 1 {
			m.envFail("createtemp")
			return Tuple{(*Opaque)(nil), m.osError("createtemp: no space", false)}
		}
		name := strConcat(mkStr(fmt.Sprintf("/tmp/#%d:", m.atomSeq)), pat)
		m.events = append(m.events, Event{Kind: "createtemp", Args: []Value{name}})
		return Tuple{&Opaque{kind: "file", data: &fileObj{name: name}}, Iface{}}
	}
	// opaque third-party packages: constructors and option functions return opaque objects
	for _, fn := range []string{"NewOptions64", "OptionEnableColorCodes", "OptionSetWidth", "OptionSetDescription", "OptionSetTheme",
		"OptionSetRenderBlankState", "OptionSetPredictTime", "OptionShowCount", "OptionShowIts", "OptionSetItsString",
		"OptionShowElapsedTimeOnFinish", "OptionOnCompletion", "OptionSetWriter", "OptionThrottle"} {
		name := fn
		in["github.com/schollz/progressbar/v3."+name] = func(m *Machine, fr *frame, a []Value) Value {
			if name == "NewOptions64" {
				return &Opaque{kind: "bar", data: "cli"}
			}
			return (*ssa.Function)(nil)
		}
	}
}

func init() { extraHarness = append(extraHarness, registerCLI) }

// cutCall: functions of package main that the job observes as events instead of executing.
func (m *Machine) cutCall(fn *ssa.Function, args []Value) (Value, bool) {
	if m.job == nil || m.job.cutSet == nil {
		return nil, false
	}
	name := strings.TrimPrefix(fn.String(), mainPath+".")
	name = strings.Replace(name, "(*"+mainPath+".", "(*", 1)
	if !m.job.cutSet[name] {
		return nil, false
	}
	ev := Event{Kind: "call:" + name, Args: append([]Value{}, args...)}
	// snapshot of option globals at the moment of the call (flag wiring clause)
	for _, g := range m.job.snapshot {
		if mem, ok := m.eng.mainPkg.Members[g].(*ssa.Global); ok {
			p := m.global(mem).(*Value)
			ev.Args = append(ev.Args, mkStr("@"+g), copyVal(*p))
		}
	}
	m.events = append(m.events, ev)
	res := fn.Signature.Results()
	var out Value
	switch res.Len() {
	case 0:
		out = nil
	case 1:
		out = zero(res.At(0).Type())
	default:
		t := make(Tuple, res.Len())
		for i := range t {
			t[i] = zero(res.At(i).Type())
		}
		out = t
	}
	failing := m.job.Params["cutFails"] == name || (m.job.Params["cutMayFail"] != "" && strings.Contains(","+m.job.Params["cutMayFail"]+",", ","+name+",") && m.choose(2, nil) == 1)
	// the cut download returns a list of symbolic temp-file names
	if name == "(*AtlasClient).DownloadClusterLogs" && m.job.Params["cut.files"] != "" && !failing {
		n := 2
		fmt.Sscanf(m.job.Params["cut.files"], "%d", &n)
		var fs []Str
		for i := 0; i < n; i++ {
			v := mkStrT(TVar(fmt.Sprintf("tmpfile%d", i), SStr))
			m.recordInput(fmt.Sprintf("tmpfile%d", i), v)
			fs = append(fs, v)
			m.events = append(m.events, Event{Kind: "createtemp", Args: []Value{v}})
		}
		if t, ok := out.(Tuple); ok {
			t[0] = mkStrSlice(fs)
		}
	}
	if name == "(*AtlasClient).DeleteClusterLogs" && len(args) >= 3 {
		// the real helper removes every listed file: recorded as remove events
		if sl, ok := args[2].(Slice); ok {
			for i := 0; i < sl.len; i++ {
				m.events = append(m.events, Event{Kind: "remove", Args: []Value{*sl.At(i)}})
			}
		}
	}
	// a cut call may be told to fail (its error result becomes non-nil)
	if failing {
		m.envFail("call:" + name)
		if res.Len() >= 1 {
			errV := m.newError(mkStr("injected failure of " + name))
			if t, ok := out.(Tuple); ok {
				t[len(t)-1] = errV
			} else {
				out = errV
			}
		}
	}
	return out, true
}

func init() {
	extraHarness = append(extraHarness, func(e *Engine) {
		e.intrinsics[mainPath+".verifTempFile"] = func(m *Machine, fr *frame, a []Value) Value {
			name := strConcat(mkStr("/verif-tmp/"), argStr(a[0]))
			if m.fs == nil {
				m.fs = map[string]*fsEntry{}
			}
			m.fs[name.Term().SMT()] = &fsEntry{kind: "file", content: argStr(a[1])}
			return name
		}
	})
}
