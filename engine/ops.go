package main

import (
	"strings"
	"fmt"
	"go/token"
	"go/types"
	"math"

	"golang.org/x/tools/go/ssa"
)

// ---------- integer helpers ----------

func intInfo(t types.Type) (width int, signed bool, ok bool) {
	b, isB := t.Underlying().(*types.Basic)
	if !isB || b.Info()&types.IsInteger == 0 {
		return 0, false, false
	}
	switch b.Kind() {
	case types.Int8:
		return 8, true, true
	case types.Int16:
		return 16, true, true
	case types.Int32:
		return 32, true, true
	case types.Int64, types.Int, types.UntypedInt, types.UntypedRune:
		return 64, true, true
	case types.Uint8:
		return 8, false, true
	case types.Uint16:
		return 16, false, true
	case types.Uint32:
		return 32, false, true
	case types.Uint64, types.Uint, types.Uintptr:
		return 64, false, true
	}
	return 0, false, false
}

// norm canonicalises a concrete value for (width, signed).
func norm(v int64, w int, signed bool) int64 {
	if w == 64 {
		return v
	}
	mask := uint64(1)<<uint(w) - 1
	u := uint64(v) & mask
	if signed && u&(1<<uint(w-1)) != 0 {
		return int64(u | ^mask)
	}
	return int64(u)
}

func boolTerm(v Value) *Term {
	switch v := v.(type) {
	case bool:
		return TBool(v)
	case *Term:
		return v
	}
	panic(abort(fmt.Sprintf("boolTerm of %T", v)))
}

func mkBool(t *Term) Value {
	if t.kind == KConst {
		return t.b
	}
	return t
}

// symbolic Int-sorted arithmetic keeps mathematical semantics; wrap is reported
// as an obligation-free assumption (ranges are constrained by the harness).
func (fr *frame) numBinop(instr ssa.Instruction, op token.Token, t types.Type, x, y Num) Value {
	w, signed, _ := intInfo(t)
	if x.t == nil && y.t == nil {
		a, b := x.c, y.c
		switch op {
		case token.ADD:
			return Num{c: norm(a+b, w, signed)}
		case token.SUB:
			return Num{c: norm(a-b, w, signed)}
		case token.MUL:
			return Num{c: norm(a*b, w, signed)}
		case token.QUO:
			if b == 0 {
				fr.rtPanic(instr, "integer divide by zero")
			}
			if signed {
				return Num{c: norm(a/b, w, signed)}
			}
			return Num{c: norm(int64(uint64(a)/uint64(b)), w, signed)}
		case token.REM:
			if b == 0 {
				fr.rtPanic(instr, "integer divide by zero")
			}
			if signed {
				return Num{c: norm(a%b, w, signed)}
			}
			return Num{c: norm(int64(uint64(a)%uint64(b)), w, signed)}
		case token.AND:
			return Num{c: a & b}
		case token.OR:
			return Num{c: a | b}
		case token.XOR:
			return Num{c: norm(a^b, w, signed)}
		case token.AND_NOT:
			return Num{c: a &^ b}
		case token.SHL:
			if uint64(b) >= 64 {
				return Num{c: 0}
			}
			return Num{c: norm(a<<uint64(b), w, signed)}
		case token.SHR:
			if signed {
				if uint64(b) >= 64 {
					if a < 0 {
						return Num{c: -1}
					}
					return Num{c: 0}
				}
				return Num{c: a >> uint64(b)}
			}
			if uint64(b) >= 64 {
				return Num{c: 0}
			}
			return Num{c: int64(uint64(a) >> uint64(b))}
		case token.EQL:
			return a == b
		case token.NEQ:
			return a != b
		case token.LSS:
			if signed {
				return a < b
			}
			return uint64(a) < uint64(b)
		case token.LEQ:
			if signed {
				return a <= b
			}
			return uint64(a) <= uint64(b)
		case token.GTR:
			if signed {
				return a > b
			}
			return uint64(a) > uint64(b)
		case token.GEQ:
			if signed {
				return a >= b
			}
			return uint64(a) >= uint64(b)
		}
		panic(abort("numBinop: op " + op.String()))
	}
	// symbolic
	xt, yt := numTermFor(x, y), numTermFor(y, x)
	if xt.sort == SInt && yt.sort == SInt {
		switch op {
		case token.ADD:
			return Num{t: TAdd(xt, yt)}
		case token.SUB:
			return Num{t: TSub(xt, yt)}
		case token.MUL:
			return Num{t: TMul(xt, yt)}
		case token.EQL:
			return mkBool(TEq(xt, yt))
		case token.NEQ:
			return mkBool(TNot(TEq(xt, yt)))
		case token.LSS:
			return mkBool(TCmp("<", xt, yt))
		case token.LEQ:
			return mkBool(TCmp("<=", xt, yt))
		case token.GTR:
			return mkBool(TCmp(">", xt, yt))
		case token.GEQ:
			return mkBool(TCmp(">=", xt, yt))
		case token.QUO, token.REM:
			// Go truncated division; only supported for non-negative operands with constant divisor > 0
			if yt.kind == KConst && yt.i > 0 {
				if lo, ok := intLowerBound(xt); ok && lo >= 0 {
					if op == token.QUO {
						return Num{t: TIntOp("div", xt, yt)}
					}
					return Num{t: TIntOp("mod", xt, yt)}
				}
			}
		}
		panic(abort(fmt.Sprintf("symbolic Int op %s unsupported at %s", op, fr.m.pos(instr.Pos()))))
	}
	// BV
	bw := bvWidth(xt.sort)
	if xt.sort == SInt {
		bw = bvWidth(yt.sort)
		xt = TInt2BV(xt, bw)
	}
	if yt.sort == SInt {
		yt = TInt2BV(yt, bw)
	}
	if bvWidth(yt.sort) != bw {
		// shifts may have a differently typed count
		yt = TBVExt(yt, bw, false)
	}
	bop := ""
	switch op {
	case token.ADD:
		bop = "bvadd"
	case token.SUB:
		bop = "bvsub"
	case token.MUL:
		bop = "bvmul"
	case token.AND:
		bop = "bvand"
	case token.OR:
		bop = "bvor"
	case token.XOR:
		bop = "bvxor"
	case token.SHL:
		bop = "bvshl"
	case token.SHR:
		if signed {
			bop = "bvashr"
		} else {
			bop = "bvlshr"
		}
	case token.QUO:
		if signed {
			bop = "bvsdiv"
		} else {
			bop = "bvudiv"
		}
	case token.REM:
		if signed {
			bop = "bvsrem"
		} else {
			bop = "bvurem"
		}
	case token.AND_NOT:
		return Num{t: TBVOp("bvand", xt, mkApp("bvnot", yt.sort, false, yt))}
	case token.EQL:
		return mkBool(TEq(xt, yt))
	case token.NEQ:
		return mkBool(TNot(TEq(xt, yt)))
	case token.LSS, token.LEQ, token.GTR, token.GEQ:
		p := "bvu"
		if signed {
			p = "bvs"
		}
		s := map[token.Token]string{token.LSS: "lt", token.LEQ: "le", token.GTR: "gt", token.GEQ: "ge"}[op]
		return mkBool(TBVCmp(p+s, xt, yt))
	}
	if bop == "" {
		panic(abort("symbolic BV op " + op.String()))
	}
	r := TBVOp(bop, xt, yt)
	if r.kind == KConst {
		return Num{c: norm(r.i, w, signed)}
	}
	return Num{t: r}
}

// numTermFor returns the term of x in a sort compatible with other.
func numTermFor(x, other Num) *Term {
	if x.t != nil {
		return x.t
	}
	if other.t != nil && other.t.sort != SInt {
		return TBV(bvWidth(other.t.sort), uint64(x.c))
	}
	return TInt(x.c)
}

// ---------- binop ----------

func (fr *frame) binop(instr ssa.Instruction, op token.Token, t types.Type, x, y Value) Value {
	switch xv := x.(type) {
	case Num:
		return fr.numBinop(instr, op, t, xv, y.(Num))
	case float64:
		b := y.(float64)
		switch op {
		case token.ADD:
			return xv + b
		case token.SUB:
			return xv - b
		case token.MUL:
			return xv * b
		case token.QUO:
			return xv / b
		case token.EQL:
			return xv == b
		case token.NEQ:
			return xv != b
		case token.LSS:
			return xv < b
		case token.LEQ:
			return xv <= b
		case token.GTR:
			return xv > b
		case token.GEQ:
			return xv >= b
		}
	case Str:
		yv := y.(Str)
		switch op {
		case token.ADD:
			return strConcat(xv, yv)
		case token.EQL:
			return mkBool(fr.m.strEq(xv, yv))
		case token.NEQ:
			return mkBool(TNot(fr.m.strEq(xv, yv)))
		case token.LSS, token.LEQ, token.GTR, token.GEQ:
			a, ok1 := xv.Const()
			b, ok2 := yv.Const()
			if ok1 && ok2 {
				switch op {
				case token.LSS:
					return a < b
				case token.LEQ:
					return a <= b
				case token.GTR:
					return a > b
				case token.GEQ:
					return a >= b
				}
			}
			xt, yt := xv.Term(), yv.Term()
			switch op {
			case token.LSS:
				return mkBool(mkApp("str.<", SBool, false, xt, yt))
			case token.LEQ:
				return mkBool(mkApp("str.<=", SBool, false, xt, yt))
			case token.GTR:
				return mkBool(mkApp("str.<", SBool, false, yt, xt))
			case token.GEQ:
				return mkBool(mkApp("str.<=", SBool, false, yt, xt))
			}
		}
	case bool, *Term:
		a, b := boolTerm(x), boolTerm(y)
		switch op {
		case token.EQL:
			return mkBool(TEq(a, b))
		case token.NEQ:
			return mkBool(TNot(TEq(a, b)))
		case token.AND:
			return mkBool(TAnd(a, b))
		case token.OR:
			return mkBool(TOr(a, b))
		}
	}
	switch op {
	case token.EQL:
		return mkBool(fr.m.equalVals(x, y))
	case token.NEQ:
		return mkBool(TNot(fr.m.equalVals(x, y)))
	}
	panic(abort(fmt.Sprintf("binop %s on %T,%T at %s", op, x, y, fr.m.pos(instr.Pos()))))
}

// strEq builds the equality term of two strings, using the machine's known
// disequalities for fresh atoms.
func (m *Machine) strEq(a, b Str) *Term {
	ca, ok1 := a.Const()
	cb, ok2 := b.Const()
	if ok1 && ok2 {
		return TBool(ca == cb)
	}
	at, bt := a.Term(), b.Term()
	if ok1 {
		at, bt = bt, at
		cb = ca
		ok2 = true
	}
	if ok2 && at.kind == KVar {
		if m.freshAtoms[at] && (m.eng.vocab[cb] || m.eng.vocab["$"+cb]) {
			return tFalse
		}
		if strings.HasPrefix(at.op, "line!") {
			// a template line is a JSON object text: never empty / blank
			if strings.TrimSpace(cb) == "" || !strings.HasPrefix(strings.TrimSpace(cb), "{") {
				return tFalse
			}
			panic(abort("comparison of a template line with constant text"))
		}
	}
	if ok2 && at.kind == KApp && at.op == "str.++" {
		// constant == prefix ++ freshAtom ++ suffix: a user field name never completes a
		// vocabulary word (class G assumption)
		ps := at.args
		lo, hi := 0, len(ps)
		rest := cb
		okStrip := true
		for lo < hi && ps[lo].kind == KConst {
			if !strings.HasPrefix(rest, ps[lo].s) {
				return tFalse
			}
			rest = rest[len(ps[lo].s):]
			lo++
		}
		for hi > lo && ps[hi-1].kind == KConst {
			if !strings.HasSuffix(rest, ps[hi-1].s) {
				return tFalse
			}
			rest = rest[:len(rest)-len(ps[hi-1].s)]
			hi--
		}
		if okStrip && hi-lo == 1 && ps[lo].kind == KVar && m.freshAtoms[ps[lo]] {
			if m.eng.vocab[cb] || m.eng.vocab[rest] || m.eng.vocab["$"+rest] {
				return tFalse
			}
			return TEq(ps[lo], TStr(rest))
		}
	}
	return TEq(at, bt)
}

// equalVals: Go == on arbitrary comparable values.
func (m *Machine) equalVals(x, y Value) *Term {
	switch xv := x.(type) {
	case bool, *Term:
		return TEq(boolTerm(x), boolTerm(y))
	case Num:
		yv := y.(Num)
		if xv.t == nil && yv.t == nil {
			return TBool(xv.c == yv.c)
		}
		a, b := numTermFor(xv, yv), numTermFor(yv, xv)
		if a.sort != b.sort {
			if a.sort == SInt {
				a = TInt2BV(a, bvWidth(b.sort))
			} else {
				b = TInt2BV(b, bvWidth(a.sort))
			}
		}
		return TEq(a, b)
	case float64:
		return TBool(xv == y.(float64))
	case Str:
		return m.strEq(xv, y.(Str))
	case *Value:
		switch yv := y.(type) {
		case *Value:
			return TBool(xv == yv)
		case SymPtr:
			return m.symPtrEq(yv, xv)
		case *Opaque:
			return TBool(xv == nil && yv == nil)
		}
	case SymPtr:
		if yp, ok := y.(*Value); ok {
			return m.symPtrEq(xv, yp)
		}
	case *Opaque:
		switch yv := y.(type) {
		case *Opaque:
			return TBool(xv == yv)
		case *Value:
			return TBool(xv == nil && yv == nil)
		}
	case Iface:
		yv, ok := y.(Iface)
		if !ok {
			break
		}
		if xv.t == nil || yv.t == nil {
			return TBool(xv.t == nil && yv.t == nil)
		}
		if !types.Identical(xv.t, yv.t) {
			return tFalse
		}
		if !types.Comparable(xv.t) {
			panic(targetPanic{runtime: "comparing uncomparable type " + xv.t.String()})
		}
		return m.equalVals(xv.v, yv.v)
	case Struct:
		yv := y.(Struct)
		var cs []*Term
		for i := range xv {
			cs = append(cs, m.equalVals(xv[i], yv[i]))
		}
		return TAnd(cs...)
	case Array:
		yv := y.(Array)
		var cs []*Term
		for i := range xv {
			cs = append(cs, m.equalVals(xv[i], yv[i]))
		}
		return TAnd(cs...)
	case *MapV:
		yv := y.(*MapV)
		return TBool(xv == yv)
	case Slice:
		yv := y.(Slice)
		if xv.IsNil() || yv.IsNil() {
			return TBool(xv.IsNil() && yv.IsNil())
		}
	case *ssa.Function:
		switch yv := y.(type) {
		case *ssa.Function:
			return TBool(xv == yv)
		case *Closure:
			return TBool(xv == nil && yv == nil)
		}
	case *Closure:
		switch yv := y.(type) {
		case *ssa.Function:
			return TBool(xv == nil && yv == nil)
		case *Closure:
			return TBool(xv == yv)
		}
	}
	panic(abort(fmt.Sprintf("equalVals %T %T", x, y)))
}

func (m *Machine) symPtrEq(s SymPtr, p *Value) *Term {
	if p == nil {
		// a lookup result is nil iff no candidate guard holds
		var gs []*Term
		for _, c := range s.cands {
			gs = append(gs, c.g)
		}
		return TNot(TOr(gs...))
	}
	var gs []*Term
	for _, c := range s.cands {
		if c.p == p {
			gs = append(gs, c.g)
		}
	}
	return TOr(gs...)
}

// ---------- unop ----------

func (fr *frame) unop(instr *ssa.UnOp, x Value) Value {
	switch instr.Op {
	case token.MUL:
		return fr.load(instr, x)
	case token.NOT:
		return mkBool(TNot(boolTerm(x)))
	case token.SUB:
		switch x := x.(type) {
		case Num:
			w, signed, _ := intInfo(instr.X.Type())
			if x.t == nil {
				return Num{c: norm(-x.c, w, signed)}
			}
			if x.t.sort == SInt {
				return Num{t: TSub(TInt(0), x.t)}
			}
			return Num{t: mkApp("bvneg", x.t.sort, false, x.t)}
		case float64:
			return -x
		}
	case token.XOR:
		if n, ok := x.(Num); ok {
			w, signed, _ := intInfo(instr.X.Type())
			if n.t == nil {
				return Num{c: norm(^n.c, w, signed)}
			}
			if n.t.sort != SInt {
				return Num{t: mkApp("bvnot", n.t.sort, false, n.t)}
			}
		}
	}
	panic(abort(fmt.Sprintf("unop %s on %T at %s", instr.Op, x, fr.m.pos(instr.Pos()))))
}

// ---------- conversions ----------

func (fr *frame) conv(instr ssa.Instruction, tDst, tSrc types.Type, x Value) Value {
	ud, us := tDst.Underlying(), tSrc.Underlying()
	switch us := us.(type) {
	case *types.Pointer:
		return x
	case *types.Slice:
		// []byte/[]rune -> string
		if b, ok := ud.(*types.Basic); ok && b.Info()&types.IsString != 0 {
			s := x.(Slice)
			if s.rope != nil {
				return *s.rope
			}
			eb, _ := us.Elem().Underlying().(*types.Basic)
			if eb != nil && eb.Kind() == types.Uint8 {
				return bytesToStr(s)
			}
			panic(abort("conversion []rune -> string"))
		}
		return x
	case *types.Basic:
		if us.Info()&types.IsString != 0 {
			s := x.(Str)
			switch d := ud.(type) {
			case *types.Basic:
				return x
			case *types.Slice:
				eb := d.Elem().Underlying().(*types.Basic)
				if eb.Kind() == types.Uint8 {
					return strToBytes(s)
				}
				if c, ok := s.Const(); ok {
					rs := []rune(c)
					arr := make([]Value, len(rs))
					for i, r := range rs {
						arr[i] = Num{c: int64(r)}
					}
					return Slice{arr: &arr, len: len(rs), cap: len(rs)}
				}
				panic(abort("conversion symbolic string -> []rune"))
			}
		}
		if n, ok := x.(Num); ok {
			switch d := ud.(type) {
			case *types.Basic:
				if d.Info()&types.IsInteger != 0 {
					w, signed, _ := intInfo(d)
					sw, ssigned, _ := intInfo(us)
					if n.t == nil {
						return Num{c: norm(n.c, w, signed)}
					}
					if n.t.sort == SInt {
						// value-preserving when the source range fits; harness atoms are constrained
						return n
					}
					return Num{t: TBVExt(n.t, bvW(w), ssigned && sw < w)}
				}
				if d.Info()&types.IsFloat != 0 {
					if n.t != nil {
						panic(abort("int->float of symbolic"))
					}
					_, ssigned, _ := intInfo(us)
					if ssigned {
						return float64(n.c)
					}
					return float64(uint64(n.c))
				}
				if d.Info()&types.IsString != 0 {
					if n.t != nil {
						panic(abort("int->string of symbolic"))
					}
					return mkStr(string(rune(n.c)))
				}
				if d.Kind() == types.UnsafePointer {
					panic(abort("conversion to unsafe.Pointer"))
				}
			}
		}
		if f, ok := x.(float64); ok {
			if d, ok := ud.(*types.Basic); ok {
				if d.Info()&types.IsFloat != 0 {
					if d.Kind() == types.Float32 {
						return float64(float32(f))
					}
					return f
				}
				if d.Info()&types.IsInteger != 0 {
					w, signed, _ := intInfo(d)
					if signed {
						return Num{c: norm(int64(f), w, signed)}
					}
					return Num{c: norm(int64(uint64(f)), w, signed)}
				}
			}
		}
		if us.Kind() == types.UnsafePointer {
			panic(abort("conversion from unsafe.Pointer"))
		}
	}
	panic(abort(fmt.Sprintf("conv %v -> %v (%T) at %s", tSrc, tDst, x, fr.m.pos(instr.Pos()))))
}

func bvW(w int) int {
	switch {
	case w <= 8:
		return 8
	case w <= 32:
		return 32
	}
	return 64
}

func bytesToStr(s Slice) Str {
	bs := make([]Num, s.len)
	allConst := true
	for i := 0; i < s.len; i++ {
		n := (*s.At(i)).(Num)
		bs[i] = n
		if n.t != nil {
			allConst = false
		}
	}
	if allConst {
		raw := make([]byte, s.len)
		for i, n := range bs {
			raw[i] = byte(n.c)
		}
		return mkStr(string(raw))
	}
	return Str{b: bs}
}

func strToBytes(s Str) Slice {
	if bs, ok := s.bytesB(); ok {
		arr := make([]Value, len(bs))
		for i, n := range bs {
			arr[i] = n
		}
		return Slice{arr: &arr, len: len(arr), cap: len(arr)}
	}
	cp := s
	return Slice{rope: &cp}
}

// ---------- slicing ----------

func (fr *frame) slice(instr *ssa.Slice, x, lo, hi, max Value) Value {
	getInt := func(v Value, def int) int {
		if v == nil {
			return def
		}
		return int(fr.concreteInt(v, "slice bound at "+fr.m.pos(instr.Pos())))
	}
	switch x := x.(type) {
	case Str:
		if bs, ok := x.bytesB(); ok {
			l, h := getInt(lo, 0), getInt(hi, len(bs))
			if l < 0 || h < l || h > len(bs) {
				fr.rtPanic(instr, fmt.Sprintf("slice bounds out of range [%d:%d] with length %d", l, h, len(bs)))
			}
			if c, ok := x.Const(); ok {
				return mkStr(c[l:h])
			}
			return Str{b: bs[l:h]}
		}
		return fr.m.symSubstr(fr, instr, x, lo, hi)
	case Slice:
		if x.rope != nil {
			if lo == nil && hi == nil {
				return x
			}
			panic(abort("slicing symbolic byte view"))
		}
		l, h, mx := getInt(lo, 0), getInt(hi, x.len), getInt(max, x.cap)
		if l < 0 || h < l || mx < h || mx > x.cap {
			fr.rtPanic(instr, fmt.Sprintf("slice bounds out of range [%d:%d:%d] with capacity %d", l, h, mx, x.cap))
		}
		if x.arr == nil {
			return Slice{}
		}
		return Slice{arr: x.arr, off: x.off + l, len: h - l, cap: mx - l}
	case *Value:
		if x == nil {
			fr.rtPanic(instr, "nil pointer dereference (slice of nil array pointer)")
		}
		a := (*x).(Array)
		l, h, mx := getInt(lo, 0), getInt(hi, len(a)), getInt(max, len(a))
		if l < 0 || h < l || mx < h || mx > len(a) {
			fr.rtPanic(instr, "slice bounds out of range")
		}
		arr := []Value(a)
		return Slice{arr: &arr, off: l, len: h - l, cap: mx - l}
	}
	panic(abort(fmt.Sprintf("slice of %T", x)))
}

// ---------- builtins ----------

// growCap mirrors runtime.growslice capacity computation of go1.24 for pointer-sized
// and byte elements (size classes applied by roundupsize).
func growCap(oldCap, newLen int, elemSize int) int {
	newcap := oldCap
	doublecap := newcap + newcap
	if newLen > doublecap {
		newcap = newLen
	} else {
		const threshold = 256
		if oldCap < threshold {
			newcap = doublecap
		} else {
			for newcap < newLen {
				newcap += (newcap + 3*threshold) >> 2
			}
		}
	}
	mem := roundupsize(newcap * elemSize)
	return mem / elemSize
}

var sizeClasses = []int{0, 8, 16, 24, 32, 48, 64, 80, 96, 112, 128, 144, 160, 176, 192, 208, 224, 240, 256, 288, 320, 352, 384, 416, 448, 480, 512, 576, 640, 704, 768, 896, 1024, 1152, 1280, 1408, 1536, 1792, 2048, 2304, 2688, 3072, 3200, 3456, 4096, 4864, 5376, 6144, 6528, 6784, 6912, 8192, 9472, 9728, 10240, 10880, 12288, 13568, 14336, 16384, 18432, 19072, 20480, 21760, 24576, 27264, 28672, 32768}

func roundupsize(n int) int {
	if n <= 32768 {
		for _, c := range sizeClasses {
			if c >= n {
				return c
			}
		}
	}
	return (n + 8191) &^ 8191
}

func elemSizeOf(t types.Type) int {
	switch u := t.Underlying().(type) {
	case *types.Basic:
		switch u.Kind() {
		case types.Bool, types.Int8, types.Uint8:
			return 1
		case types.Int16, types.Uint16:
			return 2
		case types.Int32, types.Uint32, types.Float32:
			return 4
		case types.String:
			return 16
		case types.Complex128:
			return 16
		}
		return 8
	case *types.Interface:
		return 16
	case *types.Slice:
		return 24
	case *types.Struct:
		s := 0
		for i := 0; i < u.NumFields(); i++ {
			s += (elemSizeOf(u.Field(i).Type()) + 7) &^ 7
		}
		if s == 0 {
			return 0
		}
		return s
	case *types.Array:
		return int(u.Len()) * elemSizeOf(u.Elem())
	}
	return 8
}

func (m *Machine) appendVals(s Slice, vals []Value, elemT types.Type) Slice {
	if s.rope != nil {
		panic(abort("append to symbolic byte view"))
	}
	if len(vals) == 0 {
		return s
	}
	n := s.len + len(vals)
	if s.arr != nil && n <= s.cap {
		for i, v := range vals {
			(*s.arr)[s.off+s.len+i] = copyVal(v)
		}
		return Slice{arr: s.arr, off: s.off, len: n, cap: s.cap}
	}
	es := elemSizeOf(elemT)
	nc := n
	if es > 0 {
		nc = growCap(s.cap, n, es)
	}
	if nc < n {
		nc = n
	}
	arr := make([]Value, nc)
	for i := 0; i < s.len; i++ {
		arr[i] = *s.At(i)
	}
	for i, v := range vals {
		arr[s.len+i] = copyVal(v)
	}
	for i := n; i < nc; i++ {
		arr[i] = zero(elemT)
	}
	return Slice{arr: &arr, off: 0, len: n, cap: nc}
}

func (m *Machine) callBuiltin(caller *frame, pos token.Pos, fn *ssa.Builtin, args []Value) Value {
	switch fn.Name() {
	case "append":
		s := args[0].(Slice)
		elemT := fn.Type().(*types.Signature).Params().At(0).Type().Underlying().(*types.Slice).Elem()
		switch a := args[1].(type) {
		case Slice:
			if a.rope != nil {
				panic(abort("append of symbolic byte view"))
			}
			if a.IsNil() || a.len == 0 {
				return s
			}
			vals := make([]Value, a.len)
			for i := range vals {
				vals[i] = *a.At(i)
			}
			return m.appendVals(s, vals, elemT)
		case Str: // append([]byte, string...)
			bs, ok := a.bytesB()
			if !ok {
				panic(abort("append of symbolic string to []byte"))
			}
			vals := make([]Value, len(bs))
			for i, b := range bs {
				vals[i] = b
			}
			return m.appendVals(s, vals, elemT)
		}
		panic(abort(fmt.Sprintf("append %T", args[1])))

	case "copy":
		dst := args[0].(Slice)
		switch src := args[1].(type) {
		case Slice:
			n := dst.len
			if src.len < n {
				n = src.len
			}
			if src.rope != nil {
				panic(abort("copy from symbolic byte view"))
			}
			tmp := make([]Value, n)
			for i := 0; i < n; i++ {
				tmp[i] = *src.At(i)
			}
			for i := 0; i < n; i++ {
				*dst.At(i) = tmp[i]
			}
			return Num{c: int64(n)}
		case Str:
			bs, ok := src.bytesB()
			if !ok {
				panic(abort("copy from symbolic string"))
			}
			n := dst.len
			if len(bs) < n {
				n = len(bs)
			}
			for i := 0; i < n; i++ {
				*dst.At(i) = bs[i]
			}
			return Num{c: int64(n)}
		}

	case "len":
		switch x := args[0].(type) {
		case Str:
			if bs, ok := x.bytesB(); ok {
				return Num{c: int64(len(bs))}
			}
			return Num{t: TLen(x.Term())}
		case Slice:
			if x.rope != nil {
				if bs, ok := x.rope.bytesB(); ok {
					return Num{c: int64(len(bs))}
				}
				return Num{t: TLen(x.rope.Term())}
			}
			return Num{c: int64(x.len)}
		case *MapV:
			if x == nil {
				return Num{}
			}
			m.flushPending(x)
			return Num{c: int64(x.n)}
		case Array:
			return Num{c: int64(len(x))}
		case *Value:
			return Num{c: int64(len((*x).(Array)))}
		}

	case "cap":
		switch x := args[0].(type) {
		case Slice:
			return Num{c: int64(x.cap)}
		case Array:
			return Num{c: int64(len(x))}
		}

	case "delete":
		mv := args[0].(*MapV)
		if mv != nil {
			m.mapDelete(mv, args[1])
		}
		return nil

	case "print", "println":
		return nil

	case "panic":
		panic(targetPanic{v: args[0], pos: m.pos(pos)})

	case "recover":
		return m.doRecover(caller)

	case "min", "max":
		best := args[0]
		for _, a := range args[1:] {
			an, bn := a.(Num), best.(Num)
			if an.t != nil || bn.t != nil {
				panic(abort("min/max symbolic"))
			}
			if (fn.Name() == "min" && an.c < bn.c) || (fn.Name() == "max" && an.c > bn.c) {
				best = a
			}
		}
		return best

	case "ssa:wrapnilchk":
		if isNilPtr(args[0]) {
			panic(targetPanic{runtime: "value method called using nil pointer", pos: m.pos(pos)})
		}
		return args[0]

	case "clear":
		switch x := args[0].(type) {
		case *MapV:
			if x != nil {
				x.pendingK, x.pendingV = nil, nil
				for _, e := range x.entries {
					e.deleted = true
				}
				x.index = map[string]*MapEntry{}
				x.ikeys = map[int64]*MapEntry{}
				x.n = 0
				x.symKeys = 0
			}
			return nil
		}
	}
	panic(abort(fmt.Sprintf("builtin %s(%T) at %s", fn.Name(), args[0], m.pos(pos))))
}

func (m *Machine) doRecover(caller *frame) Value {
	if caller != nil && !caller.panicking && caller.caller != nil && caller.caller.panicking {
		caller.caller.panicking = false
		p := caller.caller.panic
		caller.caller.panic = nil
		if tp, ok := p.(targetPanic); ok {
			if tp.runtime != "" {
				return Iface{t: m.eng.runtimeErrType, v: mkStr(tp.runtime)}
			}
			return tp.v
		}
	}
	return Iface{}
}

// ---------- strings: index / substr ----------

func (m *Machine) strIndex(fr *frame, instr ssa.Instruction, s Str, idx Num) Value {
	if bs, ok := s.bytesB(); ok {
		if idx.t != nil {
			panic(abort("symbolic index into byte string"))
		}
		if idx.c < 0 || int(idx.c) >= len(bs) {
			fr.rtPanic(instr, fmt.Sprintf("index out of range [%d] with length %d", idx.c, len(bs)))
		}
		return bs[idx.c]
	}
	st := s.Term()
	it := numTerm(idx)
	inb := TAnd(TCmp(">=", it, TInt(0)), TCmp("<", it, TLen(st)))
	if !m.branch(inb) {
		fr.rtPanic(instr, "index out of range (string index "+it.SMT()+")")
	}
	ch := TStrAt(st, it)
	code := TStrCode(ch)
	// strings reach the program through encoding/json (valid UTF-8); the term model has one code
	// point per byte, so a byte inspected on its own is kept in the ASCII range (stated bound)
	m.note("bound: bytes of symbolic strings that the code inspects individually (s[i]) are ASCII")
	m.addPC(TCmp("<", code, TInt(128)))
	return Num{t: code}
}

func (m *Machine) symSubstr(fr *frame, instr ssa.Instruction, s Str, lo, hi Value) Value {
	st := s.Term()
	l := TInt(0)
	if lo != nil {
		l = numTerm(lo.(Num))
	}
	h := TLen(st)
	if hi != nil {
		h = numTerm(hi.(Num))
	}
	inb := TAnd(TCmp(">=", l, TInt(0)), TCmp("<=", l, h), TCmp("<=", h, TLen(st)))
	if !m.branch(inb) {
		fr.rtPanic(instr, "slice bounds out of range (string)")
	}
	return mkStrT(TSubstr(st, l, TSub(h, l)))
}

func (m *Machine) symArrayIndex(fr *frame, instr ssa.Instruction, a Array, idx Num) Value {
	// table lookup with symbolic index: ite chain over Num elements (used by base64 tables)
	it := idx.t
	var inb *Term
	if it.sort == SInt {
		inb = TAnd(TCmp(">=", it, TInt(0)), TCmp("<", it, TInt(int64(len(a)))))
	} else if w := bvWidth(it.sort); w < 63 && uint64(len(a)) >= uint64(1)<<uint(w) {
		inb = tTrue // every value of the index type is in range
	} else {
		inb = TBVCmp("bvult", it, TBV(bvWidth(it.sort), uint64(len(a))))
	}
	if !m.branch(inb) {
		fr.rtPanic(instr, "index out of range (symbolic array index)")
	}
	// result sort: BV8 if elements are bytes
	var res *Term
	for i := len(a) - 1; i >= 0; i-- {
		e, ok := a[i].(Num)
		if !ok {
			panic(abort("symbolic index into non-integer array"))
		}
		var et *Term
		if e.t != nil {
			et = e.t
		} else if it.sort == SInt {
			et = TInt(e.c)
		} else {
			et = TBV(8, uint64(e.c))
		}
		if res == nil {
			res = et
			continue
		}
		var eq *Term
		if it.sort == SInt {
			eq = TEq(it, TInt(int64(i)))
		} else {
			eq = TEq(it, TBV(bvWidth(it.sort), uint64(i)))
		}
		res = TIte(eq, et, res)
	}
	return Num{t: res}
}

func (it *MapIter) next() Value {
	for it.pos < len(it.m.entries) {
		e := it.m.entries[it.pos]
		it.pos++
		if !e.deleted {
			return Tuple{true, e.k, copyVal(*e.v)}
		}
	}
	return Tuple{false, nil, nil}
}

func (it *StrIter) next() Value {
	if it.pos >= len(it.s) {
		return Tuple{false, Num{}, Num{}}
	}
	i := it.pos
	r, sz := rune(it.s[i]), 1
	if r >= 0x80 {
		rr := []rune(it.s[i:])
		r = rr[0]
		sz = len(string(r))
		if r == 0xFFFD {
			sz = 1
		}
	}
	it.pos += sz
	return Tuple{true, Num{c: int64(i)}, Num{c: int64(r)}}
}

var _ = math.MaxInt64
