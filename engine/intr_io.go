package main

import (
	"fmt"
	"go/types"
)

type fileObj struct {
	name   Str
	stream string // "stdout" | "stderr" | "stdin" | ""
	closed bool
}

type scanState struct {
	src   *Value // pointer to the harness' verifLineReader struct
	st    *types.Struct
	pos   int
	done  bool
	fragDone bool
	cur   Str
	err   Value
}

func fieldIndex(st *types.Struct, name string) int {
	for i := 0; i < st.NumFields(); i++ {
		if st.Field(i).Name() == name {
			return i
		}
	}
	panic(abort("harness reader lacks field " + name))
}

func registerIO(e *Engine) {
	in := e.intrinsics
	for _, s := range []string{"Stdout", "Stderr", "Stdin"} {
		name := s
		globalOverrides["os."+name] = func(m *Machine) Value {
			return &Opaque{kind: "file", data: &fileObj{name: mkStr("/dev/" + name), stream: map[string]string{"Stdout": "stdout", "Stderr": "stderr", "Stdin": "stdin"}[name]}}
		}
	}
	in["(*os.File).Write"] = func(m *Machine, fr *frame, a []Value) Value {
		o, _ := a[0].(*Opaque)
		if o == nil {
			return Tuple{Num{}, m.newError(mkStr("invalid argument"))}
		}
		f := o.data.(*fileObj)
		s := sliceToStr(a[1].(Slice))
		m.events = append(m.events, Event{Kind: "write", Args: []Value{f.name, s, mkStr(f.stream)}})
		return Tuple{lenOfStr(s), Iface{}}
	}
	in["(*os.File).Close"] = func(m *Machine, fr *frame, a []Value) Value {
		o, _ := a[0].(*Opaque)
		if o == nil {
			return m.newError(mkStr("invalid argument"))
		}
		f := o.data.(*fileObj)
		m.events = append(m.events, Event{Kind: "close", Args: []Value{f.name}})
		f.closed = true
		return Iface{}
	}
	in["(*os.File).Name"] = func(m *Machine, fr *frame, a []Value) Value {
		return a[0].(*Opaque).data.(*fileObj).name
	}

	// bufio.Scanner over the harness' line reader (contract of bufio.ScanLines)
	in["bufio.NewScanner"] = func(m *Machine, fr *frame, a []Value) Value {
		r := a[0].(Iface)
		src, st := m.lineSource(r)
		return &Opaque{kind: "bufio.Scanner", data: &scanState{src: src, st: st, err: Iface{}}}
	}
	in["(*bufio.Scanner).Buffer"] = func(m *Machine, fr *frame, a []Value) Value { return nil }
	in["(*bufio.Scanner).Scan"] = func(m *Machine, fr *frame, a []Value) Value {
		sc := a[0].(*Opaque).data.(*scanState)
		if sc.done {
			return false
		}
		rs := (*sc.src).(Struct)
		lines := rs[fieldIndex(sc.st, "lines")].(Slice)
		tooLongAt := int(rs[fieldIndex(sc.st, "tooLongAt")].(Num).c)
		if sc.pos == tooLongAt {
			sc.done = true
			g := m.prog.ImportedPackage("bufio").Var("ErrTooLong")
			_ = g
			sc.err = m.newError(mkStr("bufio.Scanner: token too long"))
			return false
		}
		if sc.pos >= lines.len {
			// a read error delivers the data read so far as a final token (ScanLines at EOF), then stops
			if errV := rs[fieldIndex(sc.st, "err")].(Iface); errV.t != nil && !sc.fragDone {
				sc.fragDone = true
				if frag := rs[fieldIndex(sc.st, "frag")].(Str); !isEmptyConst(frag) {
					sc.cur = frag
					m.events = append(m.events, Event{Kind: "scan", Args: []Value{Num{c: int64(sc.pos)}}})
					return true
				}
			}
			sc.done = true
			sc.err = rs[fieldIndex(sc.st, "err")]
			return false
		}
		sc.cur = (*lines.At(sc.pos)).(Str)
		sc.pos++
		m.events = append(m.events, Event{Kind: "scan", Args: []Value{Num{c: int64(sc.pos - 1)}}})
		return true
	}
	in["(*bufio.Scanner).Text"] = func(m *Machine, fr *frame, a []Value) Value {
		return a[0].(*Opaque).data.(*scanState).cur
	}
	in["(*bufio.Scanner).Err"] = func(m *Machine, fr *frame, a []Value) Value {
		return a[0].(*Opaque).data.(*scanState).err
	}
	// bufio.Reader over the harness' line reader: ReadString('\n') yields each line with its
	// terminator; at the end the unterminated fragment (if any) together with the read error or io.EOF
	in["bufio.NewReader"] = func(m *Machine, fr *frame, a []Value) Value {
		r := a[0].(Iface)
		src, st := m.lineSource(r)
		return &Opaque{kind: "bufio.Reader", data: &scanState{src: src, st: st, err: Iface{}}}
	}
	in["bufio.NewReaderSize"] = func(m *Machine, fr *frame, a []Value) Value {
		r := a[0].(Iface)
		src, st := m.lineSource(r)
		return &Opaque{kind: "bufio.Reader", data: &scanState{src: src, st: st, err: Iface{}}}
	}
	in["(*bufio.Reader).ReadString"] = func(m *Machine, fr *frame, a []Value) Value {
		sc := a[0].(*Opaque).data.(*scanState)
		d := a[1].(Num)
		if d.t != nil || d.c != '\n' {
			panic(abort("bufio.Reader.ReadString with a delimiter other than newline"))
		}
		rs := (*sc.src).(Struct)
		lines := rs[fieldIndex(sc.st, "lines")].(Slice)
		if sc.pos < lines.len {
			l := (*lines.At(sc.pos)).(Str)
			sc.pos++
			return Tuple{strConcat(l, mkStr("\n")), Iface{}}
		}
		errV := rs[fieldIndex(sc.st, "err")].(Iface)
		if errV.t == nil {
			errV = m.ioEOF().(Iface)
		}
		if !sc.fragDone {
			sc.fragDone = true
			return Tuple{rs[fieldIndex(sc.st, "frag")].(Str), errV}
		}
		return Tuple{Str{}, errV}
	}
	in["compress/gzip.NewReader"] = func(m *Machine, fr *frame, a []Value) Value {
		r := a[0].(Iface)
		src, st := m.lineSource(r)
		rs := (*src).(Struct)
		gerr := rs[fieldIndex(st, "gzHeaderErr")].(Iface)
		if gerr.t != nil {
			return Tuple{(*Opaque)(nil), gerr}
		}
		m.events = append(m.events, Event{Kind: "gzip.NewReader"})
		return Tuple{&Opaque{kind: "gzip.Reader", data: r}, Iface{}}
	}
	// Multistream(false): the reader stops after the first gzip member
	in["(*compress/gzip.Reader).Multistream"] = func(m *Machine, fr *frame, a []Value) Value {
		o := a[0].(*Opaque)
		on, ok := a[1].(bool)
		if !ok {
			panic(abort("gzip.Reader.Multistream with a symbolic argument"))
		}
		if on {
			return nil
		}
		src, st := m.lineSource(o.data.(Iface))
		rs := (*src).(Struct)
		first, ok := rs[fieldIndex(st, "gzFirst")].(Num)
		if !ok || first.t != nil {
			panic(abort("gzip.Reader.Multistream: symbolic member layout"))
		}
		lines := rs[fieldIndex(st, "lines")].(Slice)
		if first.c > 0 && int(first.c) < lines.len {
			cp := copyVal(rs).(Struct)
			l2 := lines
			l2.len = int(first.c)
			cp[fieldIndex(st, "lines")] = l2
			nv := new(Value)
			*nv = cp
			inner := o.data.(Iface)
			o.data = Iface{t: inner.t, v: nv}
		}
		return nil
	}
	in["(*compress/gzip.Reader).Close"] = func(m *Machine, fr *frame, a []Value) Value {
		m.events = append(m.events, Event{Kind: "gzip.Close"})
		return Iface{}
	}
}

// lineSource resolves an io.Reader to the harness' line reader struct.
func (m *Machine) lineSource(r Iface) (*Value, *types.Struct) {
	if r.t == nil {
		panic(targetPanic{runtime: "nil io.Reader"})
	}
	if o, ok := r.v.(*Opaque); ok && o != nil && o.kind == "gzip.Reader" {
		return m.lineSource(o.data.(Iface))
	}
	pt, ok := r.t.Underlying().(*types.Pointer)
	if ok {
		if named, ok := pt.Elem().(*types.Named); ok && named.Obj().Name() == "verifLineReader" {
			p := r.v.(*Value)
			return p, named.Underlying().(*types.Struct)
		}
	}
	panic(abort(fmt.Sprintf("unmodelled io.Reader %v", r.t)))
}

// ---------- progress bar (opaque; arbitrary state) ----------

func registerBar(e *Engine) {
	in := e.intrinsics
	const P = "(*github.com/schollz/progressbar/v3.ProgressBar)."
	in[mainPath+".verifBar"] = func(m *Machine, fr *frame, a []Value) Value {
		return &Opaque{kind: "bar", data: constArg(a[0], "verifBar")}
	}
	fresh := func(m *Machine, what string) Num {
		m.atomSeq++
		t := TVar(fmt.Sprintf("bar.%s!%d", what, m.atomSeq), SInt)
		return Num{t: t}
	}
	in[P+"State"] = func(m *Machine, fr *frame, a []Value) Value {
		o, _ := a[0].(*Opaque)
		if o == nil {
			panic(targetPanic{runtime: "invalid memory address or nil pointer dereference (nil *ProgressBar)"})
		}
		st := zero(e.namedType("github.com/schollz/progressbar/v3", "State")).(Struct)
		stt := e.namedType("github.com/schollz/progressbar/v3", "State").Underlying().(*types.Struct)
		st[fieldIndex(stt, "CurrentNum")] = fresh(m, "cur")
		return st
	}
	in[P+"GetMax64"] = func(m *Machine, fr *frame, a []Value) Value {
		if o, _ := a[0].(*Opaque); o == nil {
			panic(targetPanic{runtime: "invalid memory address or nil pointer dereference (nil *ProgressBar)"})
		}
		return fresh(m, "max")
	}
	in[P+"Add"] = func(m *Machine, fr *frame, a []Value) Value {
		if o, _ := a[0].(*Opaque); o == nil {
			panic(targetPanic{runtime: "invalid memory address or nil pointer dereference (nil *ProgressBar)"})
		}
		m.events = append(m.events, Event{Kind: "bar.Add"})
		if m.choose(2, nil) == 1 {
			return m.newError(mkStr("progress bar error"))
		}
		return Iface{}
	}
}

func init() { extraHarness = append(extraHarness, registerBar) }

func isEmptyConst(s Str) bool {
	c, ok := s.Const()
	return ok && c == ""
}

// ---------- bufio.Writer (buffered output) ----------
//
// Contract model: Write appends to the buffer and may, at any call, first spill the buffered
// bytes to the underlying writer (the buffer became full - solver's choice, since lengths are
// unbounded); Flush writes what is buffered. A failed spill / flush is remembered and returned by
// every later Write / Flush (bufio's sticky error). Spills happen at Write boundaries (whole
// Write payloads), which is coarser than the byte-exact spill of the real type.

type bufWriter struct {
	w   Iface
	buf Str
	err Iface
}

func init() {
	extraHarness = append(extraHarness, func(e *Engine) {
		in := e.intrinsics
		mk := func(m *Machine, fr *frame, a []Value) Value {
			w, ok := a[0].(Iface)
			if !ok {
				panic(abort("bufio.NewWriter on a non-interface writer"))
			}
			return &Opaque{kind: "bufio.Writer", data: &bufWriter{w: w}}
		}
		in["bufio.NewWriter"] = mk
		in["bufio.NewWriterSize"] = mk
		flush := func(m *Machine, fr *frame, bw *bufWriter) Iface {
			if bw.err.t != nil {
				return bw.err
			}
			if c, ok := bw.buf.Const(); ok && c == "" {
				return Iface{}
			}
			data := bw.buf
			bw.buf = Str{}
			r := m.writeTo(fr, bw.w, data).(Tuple)
			if errV := r[1].(Iface); errV.t != nil {
				bw.err = errV
				return errV
			}
			return Iface{}
		}
		write := func(m *Machine, fr *frame, a []Value) Value {
			o, _ := a[0].(*Opaque)
			if o == nil {
				panic(targetPanic{runtime: "invalid memory address or nil pointer dereference (nil *bufio.Writer)"})
			}
			bw := o.data.(*bufWriter)
			var s Str
			switch x := a[1].(type) {
			case Str:
				s = x
			case Slice:
				s = m.bytesToStr(x).(Str)
			}
			if bw.err.t != nil {
				return Tuple{Num{c: 0}, bw.err}
			}
			if c, ok := bw.buf.Const(); !(ok && c == "") {
				// the buffer may be full: spill first (solver's choice)
				if m.choose(2, nil) == 1 {
					m.note("contract: a bufio.Writer may spill its buffer to the underlying writer at any Write")
					if errV := flush(m, fr, bw); errV.t != nil {
						return Tuple{Num{c: 0}, errV}
					}
				}
			}
			bw.buf = strConcat(bw.buf, s)
			return Tuple{lenOfStr(s), Iface{}}
		}
		in["(*bufio.Writer).Write"] = write
		in["(*bufio.Writer).WriteString"] = write
		in["(*bufio.Writer).Flush"] = func(m *Machine, fr *frame, a []Value) Value {
			o, _ := a[0].(*Opaque)
			if o == nil {
				panic(targetPanic{runtime: "invalid memory address or nil pointer dereference (nil *bufio.Writer)"})
			}
			return flush(m, fr, o.data.(*bufWriter))
		}
	})
}
