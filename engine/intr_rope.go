package main

// Rope-level models of byte-oriented string code for strings that mix constants with
// symbolic atoms of a known character class (e.g. field names over [A-Za-z0-9_]+, any length):
//
//   - regexp FindAllStringSubmatch / ReplaceAllStringFunc: a leftmost-first backtracking matcher
//     over the compiled regexp/syntax program whose input is a sequence of cells (one constant rune
//     or one atom = 1+ runes of its class). An atom is consumed only by a greedy loop over a class
//     that covers the atom's class; every situation where the answer would depend on the atom's
//     content aborts the path as inconclusive (never guessed);
//   - strings.ReplaceAll / Replace with a symbolic needle of known class: exact decomposition of the
//     haystack into stretches between constant runes outside the class (an occurrence of the needle
//     lies inside one stretch); each stretch is decided by the solver (contains / equals), constant
//     stretches concretise the needle to one of their substrings;
//   - strings.TrimSpace / TrimSuffix / Split shortcuts that use the class.

import (
	"fmt"
	"regexp"
	"regexp/syntax"
	"strings"
	"unicode/utf8"
)

type charClass [4]uint64

func (c *charClass) has(b byte) bool { return c[b>>6]&(1<<(b&63)) != 0 }
func (c *charClass) set(b byte)      { c[b>>6] |= 1 << (b & 63) }

func classFromRanges(rs ...byte) *charClass {
	c := &charClass{}
	for i := 0; i+1 < len(rs); i += 2 {
		for b := int(rs[i]); b <= int(rs[i+1]); b++ {
			c.set(byte(b))
		}
	}
	return c
}

var wordClass = classFromRanges('a', 'z', 'A', 'Z', '0', '9', '_', '_')
var hexClass = classFromRanges('a', 'f', '0', '9')

const wordRegLan = `(re.+ (re.union (re.range "a" "z") (re.range "A" "Z") (re.range "0" "9") (str.to_re "_")))`

// native interpretation of the RegLan texts the engine itself puts into path conditions
var regLanNative = map[string]*regexp.Regexp{
	wordRegLan: regexp.MustCompile(`^[A-Za-z0-9_]+$`),
}

// classOf: character class of a symbolic segment (nil: unknown) and whether it is known non-empty.
func (m *Machine) classOf(t *Term) (*charClass, bool) {
	if c, ok := m.atomClass[t]; ok {
		return c, true
	}
	if t.kind == KApp && t.uf && t.op == "hexbyte" {
		return hexClass, true
	}
	return nil, false
}

func init() {
	extraHarness = append(extraHarness, func(e *Engine) {
		// verifAssumeWord(s): s is a non-empty string over [A-Za-z0-9_] (any length)
		e.intrinsics[mainPath+".verifAssumeWord"] = func(m *Machine, fr *frame, a []Value) Value {
			s := argStr(a[0])
			if c, ok := s.Const(); ok {
				if !regLanNative[wordRegLan].MatchString(c) {
					panic(pathEnd{kind: "infeasible"})
				}
				return nil
			}
			if len(s.segs) != 1 || s.segs[0].t == nil || s.segs[0].t.kind != KVar {
				panic(abort("verifAssumeWord on a composite string"))
			}
			t := s.segs[0].t
			m.addPCAssume(TInRe(t, wordRegLan))
			if m.atomClass == nil {
				m.atomClass = map[*Term]*charClass{}
			}
			m.atomClass[t] = wordClass
			m.note("bound: index-key field names are non-empty strings over [A-Za-z0-9_] of any length")
			return nil
		}
	})
}

// ---------- cells ----------

type cell struct {
	r    rune       // constant rune (atom == nil)
	atom *Term      // symbolic segment
	cls  *charClass // class of the atom (nil: unknown)
}

func (m *Machine) ropeCells(s Str) ([]cell, bool) {
	if s.b != nil {
		return nil, false
	}
	var out []cell
	for _, g := range s.segs {
		if g.t == nil {
			for _, r := range g.c {
				out = append(out, cell{r: r})
			}
			continue
		}
		c, _ := m.classOf(g.t)
		out = append(out, cell{atom: g.t, cls: c})
	}
	return out, true
}

func cellsToStr(cs []cell) Str {
	var out Str
	var sb strings.Builder
	flush := func() {
		if sb.Len() > 0 {
			out = strConcat(out, mkStr(sb.String()))
			sb.Reset()
		}
	}
	for _, c := range cs {
		if c.atom == nil {
			sb.WriteRune(c.r)
			continue
		}
		flush()
		out = strConcat(out, mkStrT(c.atom))
	}
	flush()
	return out
}

// ---------- regexp over cells ----------

type ropeMatcher struct {
	prog  *syntax.Prog
	cells []cell
	dead  map[[2]int]bool
	ncap  int
}

type ropeAmbiguous struct{ why string }

func instMatchesRune(i *syntax.Inst, r rune) bool { return i.MatchRune(r) }

// classRelation: how the runes accepted by inst relate to class c: 0 disjoint, 1 covers, 2 partial
func classRelation(i *syntax.Inst, c *charClass) int {
	all, none := true, true
	for b := 0; b < 256; b++ {
		if !c.has(byte(b)) {
			continue
		}
		if b >= utf8.RuneSelf {
			return 2
		}
		if i.MatchRune(rune(b)) {
			none = false
		} else {
			all = false
		}
	}
	switch {
	case none:
		return 0
	case all:
		return 1
	}
	return 2
}

func isRuneInst(i *syntax.Inst) bool {
	switch i.Op {
	case syntax.InstRune, syntax.InstRune1, syntax.InstRuneAny, syntax.InstRuneAnyNotNL:
		return true
	}
	return false
}

// epsClosure: rune instructions (and whether InstMatch) reachable from pc without consuming.
func (rm *ropeMatcher) epsClosure(pc int) (runes []int, match bool) {
	seen := map[int]bool{}
	var walk func(pc int)
	walk = func(pc int) {
		if seen[pc] {
			return
		}
		seen[pc] = true
		i := &rm.prog.Inst[pc]
		switch i.Op {
		case syntax.InstAlt, syntax.InstAltMatch:
			walk(int(i.Out))
			walk(int(i.Arg))
		case syntax.InstCapture, syntax.InstNop:
			walk(int(i.Out))
		case syntax.InstEmptyWidth:
			panic(ropeAmbiguous{"empty-width assertion next to a symbolic name"})
		case syntax.InstMatch:
			match = true
		case syntax.InstFail:
		default:
			runes = append(runes, pc)
		}
	}
	walk(pc)
	return
}

// loopHead: if the rune instruction at pc sits in a greedy loop (x+ / x*), the Alt instruction
// the loop returns to after one iteration.
func (rm *ropeMatcher) loopHead(pc int) (int, bool) {
	nxt := int(rm.prog.Inst[pc].Out)
	for k := 0; k < 4; k++ {
		i := &rm.prog.Inst[nxt]
		switch i.Op {
		case syntax.InstNop:
			nxt = int(i.Out)
			continue
		case syntax.InstAlt:
			if int(i.Out) == pc {
				return nxt, true
			}
		}
		break
	}
	return 0, false
}

func (rm *ropeMatcher) emptyOK(i *syntax.Inst, pos int) bool {
	op := syntax.EmptyOp(i.Arg)
	var flags syntax.EmptyOp
	prev, next := rune(-1), rune(-1)
	if pos > 0 {
		c := rm.cells[pos-1]
		if c.atom != nil {
			if op&(syntax.EmptyBeginLine|syntax.EmptyWordBoundary|syntax.EmptyNoWordBoundary) != 0 {
				if c.cls == wordClass {
					prev = 'a'
				} else {
					panic(ropeAmbiguous{"line / word boundary after a symbolic segment"})
				}
			} else {
				prev = 'a'
			}
		} else {
			prev = c.r
		}
	}
	if pos < len(rm.cells) {
		c := rm.cells[pos]
		if c.atom != nil {
			if op&(syntax.EmptyEndLine|syntax.EmptyWordBoundary|syntax.EmptyNoWordBoundary) != 0 {
				if c.cls == wordClass {
					next = 'a'
				} else {
					panic(ropeAmbiguous{"line / word boundary before a symbolic segment"})
				}
			} else {
				next = 'a'
			}
		} else {
			next = c.r
		}
	}
	flags = syntax.EmptyOpContext(prev, next)
	return op&^flags == 0
}

// run: leftmost-first backtracking from (pc, pos); caps is updated on success.
func (rm *ropeMatcher) run(pc, pos int, caps []int) ([]int, bool) {
	key := [2]int{pc, pos}
	if rm.dead[key] {
		return nil, false
	}
	i := &rm.prog.Inst[pc]
	fail := func() ([]int, bool) {
		rm.dead[key] = true
		return nil, false
	}
	switch i.Op {
	case syntax.InstFail:
		return fail()
	case syntax.InstMatch:
		nc := append([]int{}, caps...)
		nc[1] = pos
		return nc, true
	case syntax.InstNop:
		if r, ok := rm.run(int(i.Out), pos, caps); ok {
			return r, true
		}
		return fail()
	case syntax.InstCapture:
		nc := append([]int{}, caps...)
		if int(i.Arg) < len(nc) {
			nc[i.Arg] = pos
		}
		if r, ok := rm.run(int(i.Out), pos, nc); ok {
			return r, true
		}
		return fail()
	case syntax.InstEmptyWidth:
		if rm.emptyOK(i, pos) {
			if r, ok := rm.run(int(i.Out), pos, caps); ok {
				return r, true
			}
		}
		return fail()
	case syntax.InstAlt, syntax.InstAltMatch:
		if r, ok := rm.run(int(i.Out), pos, caps); ok {
			return r, true
		}
		if r, ok := rm.run(int(i.Arg), pos, caps); ok {
			return r, true
		}
		return fail()
	}
	// consuming instruction
	if pos >= len(rm.cells) {
		return fail()
	}
	c := rm.cells[pos]
	if c.atom == nil {
		if instMatchesRune(i, c.r) {
			if r, ok := rm.run(int(i.Out), pos+1, caps); ok {
				return r, true
			}
		}
		return fail()
	}
	if c.cls == nil {
		panic(ropeAmbiguous{"regexp reaches a symbolic segment of unknown character class"})
	}
	switch classRelation(i, c.cls) {
	case 0:
		return fail()
	case 2:
		panic(ropeAmbiguous{"regexp match depends on the content of a symbolic name"})
	}
	head, ok := rm.loopHead(pc)
	if !ok {
		panic(ropeAmbiguous{"regexp consumes a single character of a symbolic name (length unknown)"})
	}
	// the greedy loop swallows the whole atom; continue at the loop head after it
	if r, ok := rm.run(head, pos+1, caps); ok {
		return r, true
	}
	// lower-priority exits of the loop at interior points of the atom: they continue with the
	// loop's exit branch against a rune of the atom's class
	exit := int(rm.prog.Inst[head].Arg)
	runes, match := rm.epsClosure(exit)
	if match {
		panic(ropeAmbiguous{"regexp could end inside a symbolic name"})
	}
	for _, rp := range runes {
		if classRelation(&rm.prog.Inst[rp], c.cls) != 0 {
			panic(ropeAmbiguous{"regexp backtracks into a symbolic name"})
		}
	}
	return fail()
}

// reachThroughAtom: program counters reachable from the given rune instructions by consuming one
// or more runes of class cls (over-approximation: any rune of the class at every step).
func (rm *ropeMatcher) reachThroughAtom(start []int, cls *charClass) []int {
	seen := map[int]bool{}
	var out []int
	work := append([]int{}, start...)
	for len(work) > 0 {
		rp := work[len(work)-1]
		work = work[:len(work)-1]
		in := &rm.prog.Inst[rp]
		if !isRuneInst(in) || classRelation(in, cls) == 0 {
			continue
		}
		nxt := int(in.Out)
		if seen[nxt] {
			continue
		}
		seen[nxt] = true
		out = append(out, nxt)
		runes, match := rm.epsClosure(nxt)
		if match {
			panic(ropeAmbiguous{"a regexp match could end inside a symbolic name"})
		}
		work = append(work, runes...)
	}
	return out
}

// ropeFindAll: all non-overlapping leftmost-first matches; each is the list of capture
// boundaries (cell indexes, -1 for unset groups).
func (m *Machine) ropeFindAll(re *regexp.Regexp, s Str, n int) (res [][]int, cells []cell, err string) {
	cells, ok := m.ropeCells(s)
	if !ok {
		return nil, nil, "byte-level string"
	}
	rs, perr := syntax.Parse(re.String(), syntax.Perl)
	if perr != nil {
		return nil, nil, perr.Error()
	}
	prog, perr := syntax.Compile(rs.Simplify())
	if perr != nil {
		return nil, nil, perr.Error()
	}
	rm := &ropeMatcher{prog: prog, cells: cells, ncap: prog.NumCap}
	defer func() {
		if r := recover(); r != nil {
			if a, ok := r.(ropeAmbiguous); ok {
				res, err = nil, a.why
				return
			}
			panic(r)
		}
	}()
	startRunes, startMatch := rm.epsClosure(prog.Start)
	if startMatch {
		return nil, nil, "regexp matches the empty string"
	}
	pos := 0
	for pos <= len(cells) && (n < 0 || len(res) < n) {
		found := false
		for st := pos; st < len(cells); st++ {
			c := cells[st]
			if c.atom != nil {
				if c.cls == nil {
					return nil, nil, "regexp search crosses a symbolic segment of unknown character class"
				}
				// a match could also start at a point of the atom: follow every program state that some
				// non-empty suffix of the atom (runes of its class) can reach, and continue after the atom;
				// if none of them can complete a match, no match starts here whatever the name is
				possible := false
				for _, rp := range startRunes {
					if classRelation(&prog.Inst[rp], c.cls) != 0 {
						possible = true
					}
				}
				if possible {
					for _, pc := range rm.reachThroughAtom(startRunes, c.cls) {
						rm.dead = map[[2]int]bool{}
						caps := make([]int, prog.NumCap)
						if _, ok := rm.run(pc, st+1, caps); ok {
							return nil, nil, "a regexp match could start inside a symbolic name"
						}
					}
				}
				continue
			}
			rm.dead = map[[2]int]bool{}
			caps := make([]int, prog.NumCap)
			for k := range caps {
				caps[k] = -1
			}
			caps[0] = st
			if r, ok := rm.run(prog.Start, st, caps); ok {
				if r[1] == r[0] {
					return nil, nil, "empty regexp match"
				}
				res = append(res, r)
				pos = r[1]
				found = true
				break
			}
		}
		if !found {
			break
		}
	}
	return res, cells, ""
}

func init() {
	extraHarness = append(extraHarness, func(e *Engine) {
		in := e.intrinsics
		prevFind := in["(*regexp.Regexp).FindAllStringSubmatch"]
		in["(*regexp.Regexp).FindAllStringSubmatch"] = func(m *Machine, fr *frame, a []Value) Value {
			o := a[0].(*Opaque)
			ro := o.data.(*regexObj)
			s := argStr(a[1])
			n := a[2].(Num)
			if _, ok := s.Const(); ok || ro.re == nil || n.t != nil || s.b != nil {
				return prevFind(m, fr, a)
			}
			res, cells, why := m.ropeFindAll(ro.re, s, int(n.c))
			if why != "" {
				panic(abort("FindAllStringSubmatch on symbolic string: " + why))
			}
			if len(res) == 0 {
				return Slice{}
			}
			outer := make([]Value, len(res))
			for i, caps := range res {
				ss := make([]Str, len(caps)/2)
				for j := range ss {
					if caps[2*j] >= 0 && caps[2*j+1] >= 0 {
						ss[j] = cellsToStr(cells[caps[2*j]:caps[2*j+1]])
					}
				}
				outer[i] = mkStrSlice(ss)
			}
			return Slice{arr: &outer, len: len(outer), cap: len(outer)}
		}
		in["(*regexp.Regexp).ReplaceAllStringFunc"] = func(m *Machine, fr *frame, a []Value) Value {
			o := a[0].(*Opaque)
			ro := o.data.(*regexObj)
			s := argStr(a[1])
			if ro.re == nil {
				panic(abort("ReplaceAllStringFunc on a symbolic pattern"))
			}
			var res [][]int
			var cells []cell
			if c, ok := s.Const(); ok {
				cells, _ = m.ropeCells(s)
				// positions in runes
				for _, loc := range ro.re.FindAllStringIndex(c, -1) {
					res = append(res, []int{utf8.RuneCountInString(c[:loc[0]]), utf8.RuneCountInString(c[:loc[1]])})
				}
			} else {
				var why string
				res, cells, why = m.ropeFindAll(ro.re, s, -1)
				if why != "" {
					panic(abort("ReplaceAllStringFunc on symbolic string: " + why))
				}
			}
			var out Str
			last := 0
			for _, caps := range res {
				out = strConcat(out, cellsToStr(cells[last:caps[0]]))
				r := m.call(fr, 0, a[2], []Value{cellsToStr(cells[caps[0]:caps[1]])})
				out = strConcat(out, argStr(r))
				last = caps[1]
			}
			return strConcat(out, cellsToStr(cells[last:]))
		}
		in["(*regexp.Regexp).FindStringSubmatch"] = func(m *Machine, fr *frame, a []Value) Value {
			o := a[0].(*Opaque)
			ro := o.data.(*regexObj)
			s := argStr(a[1])
			if ro.re == nil {
				panic(abort("FindStringSubmatch on a symbolic pattern"))
			}
			if c, ok := s.Const(); ok {
				r := ro.re.FindStringSubmatch(c)
				if r == nil {
					return Slice{}
				}
				ss := make([]Str, len(r))
				for j, x := range r {
					ss[j] = mkStr(x)
				}
				return mkStrSlice(ss)
			}
			res, cells, why := m.ropeFindAll(ro.re, s, 1)
			if why != "" {
				panic(abort("FindStringSubmatch on symbolic string: " + why))
			}
			if len(res) == 0 {
				return Slice{}
			}
			caps := res[0]
			ss := make([]Str, len(caps)/2)
			for j := range ss {
				if caps[2*j] >= 0 && caps[2*j+1] >= 0 {
					ss[j] = cellsToStr(cells[caps[2*j]:caps[2*j+1]])
				}
			}
			return mkStrSlice(ss)
		}
		prevTrim := in["strings.TrimSpace"]
		in["strings.TrimSpace"] = func(m *Machine, fr *frame, a []Value) Value {
			s := argStr(a[0])
			if _, ok := s.Const(); ok || s.b != nil {
				return prevTrim(m, fr, a)
			}
			if r, ok := m.trimSpaceRope(s); ok {
				return r
			}
			return prevTrim(m, fr, a)
		}
		in["strings.TrimSuffix"] = func(m *Machine, fr *frame, a []Value) Value {
			s, suf := argStr(a[0]), argStr(a[1])
			cs, ok1 := s.Const()
			cf, ok2 := suf.Const()
			if ok1 && ok2 {
				return mkStr(strings.TrimSuffix(cs, cf))
			}
			if ok2 && s.b == nil && len(s.segs) > 0 {
				if cf == "" {
					return s
				}
				last := s.segs[len(s.segs)-1]
				if last.t == nil && len(last.c) >= len(cf) {
					if !strings.HasSuffix(last.c, cf) {
						return s
					}
					segs := append([]Seg{}, s.segs[:len(s.segs)-1]...)
					if rest := last.c[:len(last.c)-len(cf)]; rest != "" {
						segs = append(segs, Seg{c: rest})
					}
					return Str{segs: segs}
				}
				if last.t != nil {
					if c, ok := m.classOf(last.t); ok && c != nil && !c.has(cf[len(cf)-1]) {
						return s // the last rune of the string is outside the suffix's last byte
					}
				}
			}
			st, ft := s.Term(), suf.Term()
			if m.branch(TSuffixOf(ft, st)) {
				return mkStrT(TSubstr(st, TInt(0), TSub(TLen(st), TLen(ft))))
			}
			return s
		}
		prevReplaceAll := in["strings.ReplaceAll"]
		in["strings.ReplaceAll"] = func(m *Machine, fr *frame, a []Value) Value {
			s, from, to := argStr(a[0]), argStr(a[1]), argStr(a[2])
			if r, ok := m.replaceRope(s, from, to, -1); ok {
				return r
			}
			return prevReplaceAll(m, fr, a)
		}
		in["strings.Replace"] = func(m *Machine, fr *frame, a []Value) Value {
			s, from, to := argStr(a[0]), argStr(a[1]), argStr(a[2])
			n, ok := a[3].(Num)
			if !ok || n.t != nil {
				panic(abort("strings.Replace with symbolic count"))
			}
			cs, ok1 := s.Const()
			cf, ok2 := from.Const()
			ct, ok3 := to.Const()
			if ok1 && ok2 && ok3 {
				return mkStr(strings.Replace(cs, cf, ct, int(n.c)))
			}
			if n.c == 0 {
				return s
			}
			if r, ok := m.replaceRope(s, from, to, int(n.c)); ok {
				return r
			}
			if n.c < 0 {
				return prevReplaceAll(m, fr, a[:3])
			}
			panic(abort("strings.Replace on symbolic strings (needle of unknown class)"))
		}
	})
}

func isSpaceByte(b byte) bool {
	switch b {
	case ' ', '\t', '\n', '\v', '\f', '\r':
		return true
	}
	return false
}

func (m *Machine) trimSpaceRope(s Str) (Str, bool) {
	segs := append([]Seg{}, s.segs...)
	// left
	for len(segs) > 0 {
		g := segs[0]
		if g.t == nil {
			if hasNonASCIISpace(g.c) {
				return Str{}, false
			}
			t := strings.TrimLeft(g.c, " \t\n\v\f\r")
			if t == "" {
				segs = segs[1:]
				continue
			}
			segs[0] = Seg{c: t}
			break
		}
		c, nonEmpty := m.classOf(g.t)
		if c == nil || !nonEmpty || classHasSpace(c) {
			return Str{}, false
		}
		break
	}
	for len(segs) > 0 {
		g := segs[len(segs)-1]
		if g.t == nil {
			if hasNonASCIISpace(g.c) {
				return Str{}, false
			}
			t := strings.TrimRight(g.c, " \t\n\v\f\r")
			if t == "" {
				segs = segs[:len(segs)-1]
				continue
			}
			segs[len(segs)-1] = Seg{c: t}
			break
		}
		c, nonEmpty := m.classOf(g.t)
		if c == nil || !nonEmpty || classHasSpace(c) {
			return Str{}, false
		}
		break
	}
	return Str{segs: segs}, true
}

func hasNonASCIISpace(s string) bool {
	for _, r := range s {
		if r >= utf8.RuneSelf {
			return true // conservatively: unicode spaces are not analysed
		}
	}
	return false
}

func classHasSpace(c *charClass) bool {
	for _, b := range []byte(" \t\n\v\f\r") {
		if c.has(b) {
			return true
		}
	}
	for b := 128; b < 256; b++ {
		if c.has(byte(b)) {
			return true
		}
	}
	return false
}

// replaceRope: strings.Replace(s, from, to, n) for a needle made of constants and atoms of known
// class. An occurrence of the needle covers only runes of the union of those classes, so it lies
// inside one stretch of the haystack between constant runes outside that union.
func (m *Machine) replaceRope(s, from, to Str, n int) (Str, bool) {
	if s.b != nil || from.b != nil || len(from.segs) == 0 {
		return Str{}, false
	}
	if cf, ok := from.Const(); ok {
		if cs, ok := s.Const(); ok {
			// concrete haystack and needle, symbolic replacement
			if cf == "" {
				return Str{}, false
			}
			k := -1
			if n > 0 {
				k = n + 1
			}
			var out Str
			for pi, p := range strings.SplitN(cs, cf, k) {
				if pi > 0 {
					out = strConcat(out, to)
				}
				out = strConcat(out, mkStr(p))
			}
			return out, true
		}
	}
	ncells, ok := m.ropeCells(from)
	if !ok {
		return Str{}, false
	}
	cls := &charClass{}
	for _, c := range ncells {
		if c.atom == nil {
			if c.r >= utf8.RuneSelf {
				return Str{}, false
			}
			cls.set(byte(c.r))
			continue
		}
		ac, nonEmpty := m.classOf(c.atom)
		if ac == nil || !nonEmpty {
			return Str{}, false
		}
		for b := 0; b < 256; b++ {
			if ac.has(byte(b)) {
				if b >= 128 {
					return Str{}, false
				}
				cls.set(byte(b))
			}
		}
	}
	ft := from.Term()
	cells, ok := m.ropeCells(s)
	if !ok {
		return Str{}, false
	}
	var out Str
	remaining := n
	i := 0
	for i < len(cells) {
		c := cells[i]
		inStretch := func(c cell) bool {
			if c.atom != nil {
				if c.cls != nil {
					// an atom whose class is disjoint from the needle's cannot take part
					disjoint := true
					for b := 0; b < 128; b++ {
						if c.cls.has(byte(b)) && cls.has(byte(b)) {
							disjoint = false
						}
					}
					return !disjoint
				}
				return true
			}
			return c.r < utf8.RuneSelf && cls.has(byte(c.r))
		}
		if !inStretch(c) {
			out = strConcat(out, cellsToStr(cells[i:i+1]))
			i++
			continue
		}
		j := i
		for j < len(cells) && inStretch(cells[j]) {
			j++
		}
		st := cells[i:j]
		i = j
		if remaining == 0 {
			out = strConcat(out, cellsToStr(st))
			continue
		}
		r, used := m.replaceInStretch(st, ncells, ft, to, remaining)
		out = strConcat(out, r)
		if remaining > 0 {
			remaining -= used
		}
	}
	return out, true
}

func sameCells(a, b []cell) bool {
	if len(a) != len(b) {
		return false
	}
	for i := range a {
		if a[i].atom != b[i].atom || (a[i].atom == nil && a[i].r != b[i].r) {
			return false
		}
	}
	return true
}

// replaceInStretch handles one stretch; returns the rewritten stretch and the number of
// replacements made in it.
func (m *Machine) replaceInStretch(st []cell, needle []cell, ft *Term, to Str, limit int) (Str, int) {
	orig := cellsToStr(st)
	if sameCells(st, needle) {
		return to, 1 // a string occurs in itself exactly once
	}
	hasAtom := false
	for _, c := range st {
		if c.atom != nil {
			hasAtom = true
		}
	}
	if !hasAtom {
		w, _ := orig.Const()
		if !m.branch(TContains(TStr(w), ft)) {
			return orig, 0
		}
		// the needle is one of the substrings of the constant run: concretise it
		seen := map[string]bool{}
		var subs []string
		for a := 0; a < len(w); a++ {
			for b := a + 1; b <= len(w); b++ {
				if !seen[w[a:b]] {
					seen[w[a:b]] = true
					subs = append(subs, w[a:b])
				}
			}
		}
		guards := make([]*Term, len(subs))
		for k, u := range subs {
			guards[k] = TEq(ft, TStr(u))
		}
		k := m.choose(len(subs), guards)
		u := subs[k]
		cnt := strings.Count(w, u)
		if limit > 0 && cnt > limit {
			cnt = limit
		}
		parts := strings.SplitN(w, u, cnt+1)
		var out Str
		for pi, p := range parts {
			if pi > 0 {
				out = strConcat(out, to)
			}
			out = strConcat(out, mkStr(p))
		}
		return out, cnt
	}
	T := orig.Term()
	for _, c := range st {
		if c.atom != nil && c.atom.kind == KVar && (strings.HasPrefix(c.atom.op, "pre!") || strings.HasPrefix(c.atom.op, "post!")) {
			// a stretch that an earlier replacement already split: only the case without a further
			// occurrence is followed (the path is already one where a name was found inside another text)
			m.note("bound: no further occurrence of a name inside a stretch that an earlier replacement already rewrote")
			m.addPCAssume(TNot(TContains(T, ft)))
			return orig, 0
		}
	}
	if !m.branch(TContains(T, ft)) {
		return orig, 0
	}
	// first occurrence: T = x ++ f ++ y with no occurrence ending earlier
	x, y := m.freshAtom("pre"), m.freshAtom("post")
	m.addPC(TEq(T, TConcat(x, ft, y)))
	m.addPC(TNot(TContains(TConcat(x, TSubstr(ft, TInt(0), TSub(TLen(ft), TInt(1)))), ft)))
	if limit != 1 {
		m.note("bound: a field name occurs at most once inside one other symbolic stretch (another name or a pseudonym) of the plan summary")
		m.addPCAssume(TNot(TContains(y, ft)))
	}
	return strConcat(strConcat(mkStrT(x), to), mkStrT(y)), 1
}

var _ = fmt.Sprintf
