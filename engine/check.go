package main

func runCheck(prop, tier string) int { return 0 }
