package main

// Check driver: runs the jobs of one property, replays solver counterexamples on the real
// build, matches known findings, writes evidence and decides the exit status.

import (
	"encoding/json"
	"fmt"
	"os"
	"path/filepath"
	"regexp"
	"sort"
	"strconv"
	"strings"
	"sync"
	"sync/atomic"
	"time"
)

type PropCheck struct {
	ID          string
	Title       string
	Jobs        func(e *Engine, tier string) []*Job
	Functions   []string // real functions whose block coverage is reported
	Bounds      map[string]any
	Assumptions []string
	Trusted     []string
	// Post, if set, evaluates cross-path obligations after exploration.
	Post func(c *checkRun)
	// NeedWitness lists reach ids of which at least one path must exist per job (vacuity guard)
	Witness []string
	// OnlyObligations, if set, restricts the check to harness obligations whose id starts with one of these prefixes
	OnlyObligations []string
}

var propChecks = map[string]*PropCheck{}

type KnownFinding struct {
	Property string `json:"property"`
	Site     string `json:"site"` // regular expression over "<job>#<obligation>"
	Summary  string `json:"summary"`
	Example  string `json:"example,omitempty"`
}

type KnownFile struct {
	Findings []KnownFinding `json:"findings"`
	Fixed    []string       `json:"fixed"`
}

func loadKnown() *KnownFile {
	kf := &KnownFile{}
	b, err := os.ReadFile(verifDir + "/known_findings.json")
	if err != nil {
		return kf
	}
	if err := json.Unmarshal(b, kf); err != nil {
		fmt.Fprintln(os.Stderr, "known_findings.json:", err)
	}
	return kf
}

var verifDir = "/verif"

// outDir: where evidence and replay files are written (default: verifDir)
var outDir = ""

type violation struct {
	Alts      []*NativeModel // further witnesses of the same site (other paths)
	Job       *Job
	Ob        Obligation
	Site      string
	Native    *NativeModel
	Confirmed bool
	Outcome   *NativeOutcome
	Known     *KnownFinding
	Instances int
}

type checkRun struct {
	pc      *PropCheck
	tier    string
	seed    int64
	eng     *Engine
	jobs    []*Job
	results []*JobResult
	extraOb []Obligation // obligations produced by Post
	notes   map[string]bool
}

func envInt(name string, def int64) int64 {
	if v := os.Getenv(name); v != "" {
		if i, err := strconv.ParseInt(v, 10, 64); err == nil {
			return i
		}
	}
	return def
}

func runCheck(prop, tier string) int {
	t0 := time.Now()
	pc := propChecks[prop]
	if pc == nil {
		fmt.Fprintln(os.Stderr, "no check for property", prop)
		return 2
	}
	if t := os.Getenv("VERIF_TIER"); t == "quick" || t == "thorough" {
		tier = t
	}
	seed := envInt("VERIF_SEED", 1)
	if tier == "thorough" {
		solverTimeoutMs = 60000
		jobTimeLimit = 4 * time.Hour
	}
	if v := envInt("GOSYM_JOBTIMEOUT", 0); v > 0 {
		jobTimeLimit = time.Duration(v) * time.Second
	}
	e := loadDefault()
	fmt.Printf("[%s] loaded /repo working tree as go/ssa in %v\n", prop, loadTime.Round(time.Millisecond))

	// encoder validation: the repository's own fixtures through engine and real build
	nfix, mm := runFixtureDifferential(e)
	fmt.Printf("[%s] encoder validation: %d fixture cases, %d mismatches\n", prop, nfix, len(mm))
	engineBroken := len(mm) > 0
	for _, m := range mm {
		fmt.Println("  ENGINE-MISMATCH", m)
	}

	cr := &checkRun{pc: pc, tier: tier, seed: seed, eng: e, notes: map[string]bool{}}
	cr.jobs = pc.Jobs(e, tier)
	if only := os.Getenv("GOSYM_ONLY"); only != "" {
		var keep []*Job
		for _, j := range cr.jobs {
			if strings.Contains(j.Name, only) {
				keep = append(keep, j)
			}
		}
		cr.jobs = keep
		verifDir = os.TempDir() + "/gosym-partial" // partial runs never overwrite evidence
	}
	// deterministic order, seed rotates the start
	if n := len(cr.jobs); n > 0 {
		k := int(seed % int64(n))
		cr.jobs = append(cr.jobs[k:], cr.jobs[:k]...)
	}
	cr.results = make([]*JobResult, len(cr.jobs))
	var wg sync.WaitGroup
	var next int64 = -1
	for w := 0; w < 24 && w < len(cr.jobs); w++ {
		wg.Add(1)
		go func() {
			defer wg.Done()
			for {
				i := int(atomic.AddInt64(&next, 1))
				if i >= len(cr.jobs) {
					return
				}
				cr.results[i] = e.RunJob(cr.jobs[i], poolSize)
			}
		}()
	}
	wg.Wait()
	if pc.Post != nil {
		pc.Post(cr)
	}

	// ---- collect ----
	var paths, decided, steps, aborted, unknownFeas, truncated int
	var truncNames []string
	obTotal, obDischarged, obTrivial, obInconclusive := 0, 0, 0, 0
	abortMsgs := map[string]int{}
	var cands []*violation
	seenSite := map[string]*violation{}
	vacuous := []string{}
	endCount := map[string]int{}
	for ji, jr := range cr.results {
		job := cr.jobs[ji]
		if jr.Truncated {
			truncated++
			truncNames = append(truncNames, job.Name)
			obTotal++
			obInconclusive++ // unexplored remainder of the job
		}
		reached := map[string]bool{}
		for _, p := range jr.Paths {
			paths++
			decided += p.Decided
			steps += p.Steps
			unknownFeas += p.UnknownFeas
			endCount[p.End]++
			for r := range p.Reached {
				reached[r] = true
			}
			for _, n := range p.Notes {
				cr.notes[n] = true
			}
			if p.End == "abort" {
				aborted++
				abortMsgs[trunc(firstLine(p.Msg), 160)]++
			}
			for _, ob := range p.Obligations {
				if len(pc.OnlyObligations) > 0 && ob.ID != "implicit/no-panic" {
					keep := false
					for _, pre := range pc.OnlyObligations {
						if strings.HasPrefix(ob.ID, pre) {
							keep = true
						}
					}
					if !keep {
						continue
					}
				}
				obTotal++
				switch ob.Result {
				case "discharged":
					obDischarged++
				case "trivial":
					obTrivial++
					obDischarged++
				case "inconclusive":
					obInconclusive++
				case "violated":
					if os.Getenv("GOSYM_SHOWVIOL") != "" {
						fmt.Printf("  [debug] violated %s#%s: %s\n", job.Name, ob.ID, trunc(ob.Details+" "+ob.Cond, 300))
					}
					site := job.Name + "#" + ob.ID
					injected := false
					for _, ev := range p.Events {
						if ev.Kind == "envfail" {
							injected = true
						}
					}
					if v, ok := seenSite[site]; ok {
						v.Instances++
						if ob.Model != nil {
							nm := BuildNativeModel(job, p.Inputs, ob.Model)
							if v.Native == nil {
								// prefer an instance that carries a concrete witness
								v.Ob = ob
								v.Native = nm
							} else if !injected && len(v.Alts) < 4 {
								// witnesses from paths without injected environment failures replay natively
								v.Alts = append(v.Alts, nm)
							}
						}
						continue
					}
					v := &violation{Job: job, Ob: ob, Site: site, Instances: 1}
					if ob.Model != nil {
						v.Native = BuildNativeModel(job, p.Inputs, ob.Model)
					}
					seenSite[site] = v
					cands = append(cands, v)
				}
			}
		}
		for _, w := range pc.Witness {
			if !reached[w] && !job.NoNative {
				vacuous = append(vacuous, job.Name+":"+w)
			}
		}
	}
	for _, ob := range cr.extraOb {
		obTotal++
		switch ob.Result {
		case "discharged", "trivial":
			obDischarged++
		case "inconclusive":
			obInconclusive++
		case "violated":
			v := &violation{Ob: ob, Site: ob.ID, Instances: 1, Confirmed: true}
			cands = append(cands, v)
		}
	}
	sort.Slice(cands, func(i, j int) bool { return cands[i].Site < cands[j].Site })

	// ---- replay candidates on the real build ----
	var cases []NativeCase
	var idx []int
	for i, v := range cands {
		if v.Job != nil && v.Native != nil && !v.Job.NoNative {
			cases = append(cases, NativeCase{Harness: v.Job.Harness, Model: v.Native})
			idx = append(idx, i)
		}
	}
	var altIdx []int
	for i, v := range cands {
		if v.Job != nil && !v.Job.NoNative {
			for _, a := range v.Alts {
				cases = append(cases, NativeCase{Harness: v.Job.Harness, Model: a})
				idx = append(idx, i)
				altIdx = append(altIdx, len(cases)-1)
			}
		}
	}
	_ = altIdx
	spurious := 0
	var spuriousSites []string
	if len(cases) > 0 {
		outs, err := RunNative(cases)
		if err != nil {
			fmt.Println("  replay failed:", trunc(err.Error(), 2000))
			engineBroken = true
		} else {
			for k, o := range outs {
				v := cands[idx[k]]
				if v.Confirmed {
					continue
				}
				oc := o
				hit := false
				if v.Ob.ID == "implicit/no-panic" {
					hit = o.Panic != ""
				} else {
					for _, f := range o.Failed {
						if f == v.Ob.ID {
							hit = true
						}
					}
				}
				if hit || v.Outcome == nil {
					v.Outcome = &oc
					if hit {
						v.Confirmed = true
						v.Native = cases[k].Model
					}
				}
			}
			for _, v := range cands {
				if v.Job != nil && v.Native != nil && !v.Job.NoNative && !v.Confirmed {
					spurious++
					spuriousSites = append(spuriousSites, v.Site)
				}
			}
		}
	}

	// ---- prediction validation: symbolic outcome under a model vs native run ----
	validated, valMismatch := cr.validatePredictions(seed)
	if len(valMismatch) > 0 {
		engineBroken = true
		for _, m := range valMismatch {
			fmt.Println("  ENGINE-MISMATCH", m)
		}
	}

	// ---- verdict ----
	known := loadKnown()
	if outDir != "" {
		verifDir = outDir
	}
	os.RemoveAll(verifDir + "/replays/" + prop)
	os.MkdirAll(verifDir+"/replays/"+prop, 0755)
	newViol := 0
	var knownLines, violLines []string
	var samples []any
	knownHit := map[int]bool{}
	for _, v := range cands {
		if !v.Confirmed {
			if v.Native != nil {
				writeReplay(filepath.Join(verifDir, "replays", prop, "unreproduced_"+sanitize(v.Site)+".json"), prop, v)
			}
			continue
		}
		for ki := range known.Findings {
			k := &known.Findings[ki]
			if k.Property != prop {
				continue
			}
			if re, err := regexp.Compile("^(?:" + k.Site + ")$"); err == nil && re.MatchString(v.Site) {
				v.Known = k
				knownHit[ki] = true
				break
			}
		}
		rp := filepath.Join(verifDir, "replays", prop, sanitize(v.Site)+".json")
		writeReplay(rp, prop, v)
		if v.Known != nil {
			continue
		}
		newViol++
		violLines = append(violLines, fmt.Sprintf("VIOLATION property=%s replay=%s", prop, rp))
		fmt.Printf("  violated: %s (%d instance(s)) %s\n", v.Site, v.Instances, trunc(v.Ob.Details, 200))
	}
	for ki := range known.Findings {
		if knownHit[ki] {
			k := known.Findings[ki]
			knownLines = append(knownLines, fmt.Sprintf("KNOWN-FINDING: property=%s %s: %s", prop, k.Site, k.Summary))
		}
	}
	if engineBroken {
		// a wrong encoder must neither raise nor hide an alarm silently
		fmt.Printf("[%s] ENGINE-MISMATCH: verdicts of this run are not trustworthy; all obligations reported inconclusive\n", prop)
		obInconclusive = obTotal
		obDischarged = 0
		violLines = nil
		newViol = 0
	}
	for _, l := range knownLines {
		fmt.Println(l)
	}
	for _, l := range violLines {
		fmt.Println(l)
	}

	if debugCallers {
		printCallerStats()
	}
	// ---- evidence ----
	for ji, jr := range cr.results {
		if len(samples) >= 6 {
			break
		}
		job := cr.jobs[ji]
		s := map[string]any{"job": job.Name, "harness": job.Harness, "paths": len(jr.Paths)}
		if t := job.Lines["L0"]; t != nil {
			s["template"] = trunc(t.Text, 700)
		}
		if len(job.Params) > 0 {
			s["params"] = job.Params
		}
		var obs []string
		for _, p := range jr.Paths {
			for _, ob := range p.Obligations {
				if len(obs) < 4 {
					obs = append(obs, ob.ID+": "+ob.Result+" "+trunc(ob.Cond, 160))
				}
			}
		}
		s["obligations"] = obs
		samples = append(samples, s)
	}
	for _, v := range cands {
		if v.Confirmed && len(samples) < 12 {
			s := map[string]any{"violation_site": v.Site, "known": v.Known != nil}
			if v.Native != nil {
				s["input"] = v.Native.Lines
				s["values"] = v.Native.Strings
			}
			samples = append(samples, s)
		}
	}
	if len(samples) == 0 {
		samples = append(samples, map[string]any{"note": "no jobs"})
	}
	notes := sortedKeys(cr.notes)
	cov := map[string]any{
		"states":                        paths,
		"transitions":                   decided,
		"traces_validated_against_impl": validated + nfix,
		"samples":                       samples,
		"jobs":                          len(cr.jobs),
		"ssa_steps":                     steps,
		"path_ends":                     endCount,
		"obligations":                   obTotal,
		"discharged":                    obDischarged,
		"trivially_true":                obTrivial,
		"inconclusive":                  obInconclusive,
		"inconclusive_paths":            aborted,
		"inconclusive_reasons":          abortMsgs,
		"feasibility_unknown":           unknownFeas,
		"truncated_jobs":                truncated,
		"truncated_job_names":           truncNames,
		"spurious_models":               spurious,
		"violations_confirmed_by_replay": len(violLines) + len(knownLines),
		"known_findings":                knownLines,
		"vacuity_failures":              vacuous,
		"functions_encoded":             e.coverageReport(pc.Functions),
		"bounds":                        pc.Bounds,
		"queries":                       solverStatsMap(),
		"decided_by_key_domain_reasoning": atomic.LoadInt64(&domainDecided),
		"fixture_differential_cases":    nfix,
		"prediction_validation_cases":   validated,
		"encoder_mismatch":              engineBroken,
		"engine_notes":                  notes,
		"exhaustive":                    false,
		"rule":                          "one state = one feasible path of the harness through the real SSA; one transition = one branch decision settled by the SMT solver",
	}
	ev := map[string]any{
		"property_id": prop,
		"tier":        tier,
		"seed":        seed,
		"level":       "model_checking",
		"coverage":    cov,
		"assumptions": append(append([]string{}, pc.Assumptions...), notes...),
		"wall_s":      time.Since(t0).Seconds(),
		"violations":  newViol,
	}
	cov["trusted_base"] = pc.Trusted
	os.MkdirAll(verifDir+"/evidence", 0755)
	eb, _ := json.MarshalIndent(ev, "", " ")
	os.WriteFile(verifDir+"/evidence/"+prop+".json", eb, 0644)

	fmt.Printf("[%s] tier=%s jobs=%d paths=%d solver-decided=%d obligations=%d discharged=%d inconclusive=%d (paths %d) spurious=%d known=%d new=%d wall=%.1fs\n",
		prop, tier, len(cr.jobs), paths, decided, obTotal, obDischarged, obInconclusive, aborted, spurious, len(knownLines), newViol, time.Since(t0).Seconds())
	if os.Getenv("GOSYM_JOBSTATS") != "" {
		type js struct {
			n string
			p int
			w time.Duration
		}
		var all []js
		for ji, jr := range cr.results {
			all = append(all, js{cr.jobs[ji].Name, len(jr.Paths), jr.Wall})
		}
		sort.Slice(all, func(i, j int) bool { return all[i].p > all[j].p })
		for i, j := range all {
			if i < 25 {
				fmt.Printf("  job %-60s paths=%d wall=%v\n", j.n, j.p, j.w.Round(time.Millisecond))
			}
		}
	}
	if len(abortMsgs) > 0 {
		for m, n := range abortMsgs {
			fmt.Printf("  inconclusive x%d: %s\n", n, m)
		}
	}
	if spurious > 0 {
		fmt.Printf("  solver models not reproduced on the real build (not counted): %s\n", trunc(strings.Join(spuriousSites, ", "), 1500))
	}
	if truncated > 0 {
		fmt.Printf("  truncated (time/path budget exhausted, remainder inconclusive): %s\n", trunc(strings.Join(truncNames, ", "), 600))
	}
	if len(vacuous) > 0 {
		fmt.Printf("  vacuity guard: %d job(s) never reached a witness point: %s\n", len(vacuous), trunc(strings.Join(vacuous, ", "), 400))
	}
	if newViol > 0 {
		return 1
	}
	return 0
}

func firstLine(s string) string {
	if i := strings.IndexByte(s, '\n'); i >= 0 {
		return s[:i]
	}
	return s
}

var sanRe = regexp.MustCompile(`[^A-Za-z0-9_.\-]+`)

func sanitize(s string) string {
	s = sanRe.ReplaceAllString(s, "_")
	if len(s) > 120 {
		s = s[:120]
	}
	return s
}

func writeReplay(path, prop string, v *violation) {
	r := map[string]any{
		"property": prop, "site": v.Site, "obligation": v.Ob.ID, "details": v.Ob.Details, "condition": v.Ob.Cond,
		"instances": v.Instances,
		"replay_cmd": "bin/gosym replay " + path,
	}
	if v.Job != nil {
		r["harness"] = v.Job.Harness
		r["job"] = v.Job.Name
	}
	if v.Native != nil {
		r["model"] = v.Native
	}
	if v.Outcome != nil {
		r["native_outcome"] = v.Outcome
	}
	if v.Known != nil {
		r["known_finding"] = v.Known.Summary
	}
	b, _ := json.MarshalIndent(r, "", " ")
	os.WriteFile(path, b, 0644)
}

func solverStatsMap() map[string]any {
	out := map[string]any{}
	statsMu.Lock()
	defer statsMu.Unlock()
	for name, st := range solverStats {
		out[name] = map[string]any{"queries": st.Queries, "sat": st.Sat, "unsat": st.Unsat, "unknown": st.Unknown, "time_s": float64(st.TimeNanos) / 1e9}
	}
	return out
}

// coverageReport: block coverage of the named functions by the explored paths.
func (e *Engine) coverageReport(names []string) []map[string]any {
	var out []map[string]any
	e.covMu.Lock()
	defer e.covMu.Unlock()
	fns := allFunctionsOf(e.mainPkg)
	byName := map[string][]int{}
	for fn := range fns {
		n := fn.Name()
		if fn.Parent() != nil {
			n = fn.String()
			n = strings.TrimPrefix(n, mainPath+".")
		}
		tot, cov := len(fn.Blocks), 0
		for _, b := range fn.Blocks {
			if _, ok := e.coverage[b]; ok {
				cov++
			}
		}
		byName[n] = []int{tot, cov}
	}
	if names == nil {
		for n, v := range byName {
			if v[1] > 0 && !strings.HasPrefix(n, "verif") && !strings.HasPrefix(n, "H_") && n != "init" {
				names = append(names, n)
			}
		}
		sort.Strings(names)
	}
	for _, n := range names {
		if v, ok := byName[n]; ok {
			out = append(out, map[string]any{"name": n, "blocks": v[0], "covered": v[1]})
		} else {
			out = append(out, map[string]any{"name": n, "blocks": 0, "covered": 0, "note": "not found in current tree"})
		}
	}
	return out
}

// validatePredictions: for a sample of explored paths, a model of the path condition is
// run natively and the emitted outputs are compared with the engine's symbolic outcome
// evaluated under the same model.
func (cr *checkRun) validatePredictions(seed int64) (int, []string) {
	type pick struct {
		job *Job
		p   *PathResult
	}
	var picks []pick
	maxPicks := 24
	if cr.tier == "thorough" {
		maxPicks = 96
	}
	vsolver := NewSolver()
	defer vsolver.Close()
	// validation is a sanity layer: short solver budget per model, bounded total time
	saveTO := solverTimeoutMs
	solverTimeoutMs = 2500
	defer func() { solverTimeoutMs = saveTO }()
	vstart := time.Now()
	vbudget := 45 * time.Second
	if cr.tier == "thorough" {
		vbudget = 4 * time.Minute
	}
	// deterministic spread over jobs
	for round := 0; round < 3 && len(picks) < maxPicks; round++ {
		for ji, jr := range cr.results {
			if len(picks) >= maxPicks || time.Since(vstart) > vbudget {
				break
			}
			if cr.jobs[ji].NoNative {
				continue
			}
			var ok []*PathResult
			for _, p := range jr.Paths {
				if p.End == "done" || p.End == "panic" {
					// paths with an injected environment failure (os.CreateTemp, os.Create ...) have
					// no native counterpart in the replay harness: not comparable
					injected := false
					for _, ev := range p.Events {
						if ev.Kind == "envfail" {
							injected = true
						}
					}
					if !injected {
						ok = append(ok, p)
					}
				}
			}
			if len(ok) <= round {
				continue
			}
			k := (int(seed) + ji*7 + round*13) % len(ok)
			p := ok[k]
			if p.EndModel == nil {
				if r, mod := checkModelWith(vsolver, cr.eng, p.Fresh, p.Prefs, p.PC); r == Sat {
					p.EndModel = mod
				}
			}
			if p.EndModel == nil {
				continue
			}
			if modelRefuted(p.EndModel, p.PC) {
				// the path needs values the native functions behind the uninterpreted symbols do not
				// produce for this model (e.g. a SHA-256 prefix collision): no concrete counterpart
				continue
			}
			picks = append(picks, pick{cr.jobs[ji], p})
		}
	}
	if len(picks) == 0 {
		return 0, nil
	}
	var cases []NativeCase
	for _, pk := range picks {
		cases = append(cases, NativeCase{Harness: pk.job.Harness, Model: BuildNativeModel(pk.job, pk.p.Inputs, pk.p.EndModel)})
	}
	outs, err := RunNative(cases)
	if err != nil {
		return 0, []string{"native run failed: " + trunc(err.Error(), 1500)}
	}
	var mm []string
	n := 0
	for i, pk := range picks {
		o := outs[i]
		var want []string
		evalOK := true
		for _, ev := range pk.p.Events {
			if ev.Kind != "emit" {
				continue
			}
			r, err := pk.p.EndModel.Eval(ev.Args[0].(Str).Term())
			if err != nil {
				evalOK = false
				break
			}
			want = append(want, r.(string))
		}
		if !evalOK {
			continue
		}
		if o.AssumeKO {
			continue // the model left the harness' assumptions (string model imprecision): not comparable
		}
		n++
		if pk.p.End == "panic" {
			if o.Panic == "" {
				mm = append(mm, fmt.Sprintf("%s: engine predicts panic (%s), native run did not panic; input %v", pk.job.Name, trunc(pk.p.Msg, 100), cases[i].Model.Lines))
			}
			continue
		}
		if o.Panic != "" {
			mm = append(mm, fmt.Sprintf("%s: native panic %q not predicted; input %v", pk.job.Name, trunc(o.Panic, 100), cases[i].Model.Lines))
			continue
		}
		if strings.Join(want, "\n") != strings.Join(o.Emitted, "\n") {
			a, b := strings.Join(want, "|"), strings.Join(o.Emitted, "|")
			d := 0
			for d < len(a) && d < len(b) && a[d] == b[d] {
				d++
			}
			lo := d - 60
			if lo < 0 {
				lo = 0
			}
			mm = append(mm, fmt.Sprintf("%s: %d/%d emitted; first difference at %d: predicted ...%q native ...%q; ints %v input %v", pk.job.Name, len(want), len(o.Emitted), d, trunc(a[lo:], 200), trunc(b[lo:], 200), cases[i].Model.Ints, cases[i].Model.Lines))
		}
	}
	return n, mm
}

// modelRefuted: some constraint evaluates to false under the model with the native
// interpretation of the uninterpreted symbols (constraints that cannot be evaluated are skipped).
func modelRefuted(mod *Model, q []*Term) bool {
	for _, t := range q {
		r, err := mod.Eval(t)
		if err != nil {
			continue
		}
		if b, ok := r.(bool); ok && !b {
			return true
		}
	}
	return false
}
