package main

// Template corpus: MongoDB command log lines derived from the query / update /
// aggregation / Atlas Search grammar of the MongoDB manual (NOT from the operator tables
// of the code under test). Variable parts are typed holes:
//
//	S   sensitive string literal            D/O/B64  payload under $date / $oid / $binary.base64
//	N   numeric literal   B  boolean literal
//	G   user field name outside the tool's operator vocabulary   F  arbitrary field name
//	DB/COLL namespace parts                 IP  client address   X  operational value
//
// Only argument positions whose status the property text settles are given S/N/B holes.

import (
	"fmt"
	"regexp"
	"sort"
	"strings"
)

type tplSpec struct {
	Name string
	Text string
	Tags map[string]bool
}

// ---------- value forms ----------

var valueForms = []struct{ name, text string }{
	{"str", `"<<S:@>>"`},
	{"date", `{"$date":"<<D:@>>"}`},
	{"oid", `{"$oid":"<<O:@>>"}`},
	{"bin", `{"$binary":{"base64":"<<B64:@>>","subType":"04"}}`},
	{"num", `"<<N:@>>"`},
	{"bool", `"<<B:@>>"`},
	{"numlong", `{"$numberLong":"<<S:@>>"}`},
	{"doc", `{"%G":"<<S:@>>"}`},
	{"arr", `["<<S:@>>","<<S:@>>"]`},
	{"arrarr", `[["<<S:@>>"]]`},
	{"arrdoc", `[{"%G":"<<S:@>>"}]`},
	{"arrarrdoc", `[[{"%G":"<<S:@>>"}]]`},
	{"docdate", `{"%G":{"$date":"<<D:@>>"}}`},
	{"docarr", `{"%G":["<<S:@>>",{"%G":"<<S:@>>"}]}`},
}

var vfQuick = []string{"str", "date", "num", "arr", "arrarrdoc", "doc"}
var vfRep = []string{"str", "arrdoc"}

func vfText(name string) string {
	for _, v := range valueForms {
		if v.name == name {
			return v.text
		}
	}
	panic("no value form " + name)
}

// ---------- contexts ----------

type ctx struct {
	name string
	text string
	kind string // "any": %V accepts every value form; "": fixed
}

func opsExpand(names []string, pat string, kind string) []ctx {
	var out []ctx
	for _, n := range names {
		out = append(out, ctx{strings.TrimPrefix(n, "$"), strings.ReplaceAll(pat, "@OP", n), kind})
	}
	return out
}

// filter documents (query predicates)
func filterCtxs() []ctx {
	var c []ctx
	c = append(c, ctx{"field", `{"%G":%V}`, "any"})
	c = append(c, ctx{"dotted", `{"%G.%G":%V}`, "any"})
	c = append(c, ctx{"two", `{"%G":%V,"%G":%S}`, "any"})
	c = append(c, opsExpand([]string{"$eq", "$ne", "$gt", "$gte", "$lt", "$lte"}, `{"%G":{"@OP":%V}}`, "any")...)
	c = append(c, ctx{"range", `{"%G":{"$gte":%V,"$lt":%S}}`, "any"})
	c = append(c, opsExpand([]string{"$in", "$nin", "$all"}, `{"%G":{"@OP":[%V,%S]}}`, "any")...)
	c = append(c, opsExpand([]string{"$and", "$or", "$nor"}, `{"@OP":[{"%G":%V},{"%G":{"$ne":%S}}]}`, "any")...)
	c = append(c, ctx{"and-or", `{"$and":[{"$or":[{"%G":%V},{"%G":%S}]}]}`, "any"})
	c = append(c, ctx{"not", `{"%G":{"$not":{"$gt":%V}}}`, "any"})
	c = append(c, ctx{"not-in", `{"%G":{"$not":{"$in":[%V]}}}`, "any"})
	c = append(c, ctx{"elemMatch-doc", `{"%G":{"$elemMatch":{"%G":%V,"%G":{"$gt":%S}}}}`, "any"})
	c = append(c, ctx{"elemMatch-op", `{"%G":{"$elemMatch":{"$gte":%V,"$lt":%S}}}`, "any"})
	c = append(c, ctx{"all-elemMatch", `{"%G":{"$all":[{"$elemMatch":{"%G":%V}}]}}`, "any"})
	c = append(c, ctx{"regex", `{"%G":{"$regex":%S,"$options":"i"}}`, ""})
	c = append(c, ctx{"regex-in", `{"%G":{"$in":[{"$regex":%S}]}}`, ""})
	c = append(c, ctx{"text", `{"$text":{"$search":%S,"$caseSensitive":false}}`, ""})
	c = append(c, ctx{"where", `{"$where":%S}`, ""})
	c = append(c, ctx{"mod", `{"%G":{"$mod":[%N,%N]}}`, ""})
	c = append(c, ctx{"size", `{"%G":{"$size":%N}}`, ""})
	c = append(c, ctx{"exists", `{"%G":{"$exists":%B}}`, ""})
	c = append(c, ctx{"bits", `{"%G":{"$bitsAllSet":%N}}`, ""})
	c = append(c, ctx{"bits-arr", `{"%G":{"$bitsAnyClear":[%N,%N]}}`, ""})
	c = append(c, ctx{"expr-eq", `{"$expr":{"$eq":["$%G",%V]}}`, "any"})
	c = append(c, ctx{"expr-and", `{"$expr":{"$and":[{"$gt":["$%G",%V]},{"$lt":["$%G",%S]}]}}`, "any"})
	c = append(c, ctx{"expr-in", `{"$expr":{"$in":["$%G",[%V,%S]]}}`, "any"})
	c = append(c, ctx{"expr-cond", `{"$expr":{"$eq":[{"$cond":[{"$eq":["$%G",%V]},%S,%S]},%S]}}`, "any"})
	c = append(c, ctx{"geo-center", `{"%G":{"$geoWithin":{"$centerSphere":[[%N,%N],%N]}}}`, ""})
	c = append(c, ctx{"geo-box", `{"%G":{"$geoWithin":{"$box":[[%N,%N],[%N,%N]]}}}`, ""})
	c = append(c, ctx{"geo-geometry", `{"%G":{"$geoIntersects":{"$geometry":{"type":"Point","coordinates":[%N,%N]}}}}`, ""})
	c = append(c, ctx{"near", `{"%G":{"$near":{"$geometry":{"type":"Point","coordinates":[%N,%N]},"$maxDistance":%N}}}`, ""})
	c = append(c, ctx{"nearSphere", `{"%G":{"$nearSphere":[%N,%N],"$maxDistance":%N}}`, ""})
	c = append(c, ctx{"comment", `{"%G":%V,"$comment":%S}`, "any"})
	c = append(c, ctx{"id", `{"_id":%V}`, "any"})
	c = append(c, ctx{"id-in", `{"_id":{"$in":[%V,%S]}}`, "any"})
	c = append(c, ctx{"nested-doc", `{"%G":{"%G":{"%G":%V}}}`, "any"})
	c = append(c, ctx{"or-elemMatch-in", `{"$or":[{"%G":{"$elemMatch":{"%G":{"$in":[%V]}}}}]}`, "any"})
	return c
}

func filterReps() []ctx {
	all := filterCtxs()
	var out []ctx
	for _, c := range all {
		switch c.name {
		case "field", "in", "and", "elemMatch-doc", "regex", "expr-eq":
			out = append(out, c)
		}
	}
	return out
}

// update specifications
func updateCtxs() []ctx {
	var c []ctx
	c = append(c, opsExpand([]string{"$set", "$setOnInsert", "$min", "$max"}, `{"@OP":{"%G":%V,"%G.%G":%S}}`, "any")...)
	c = append(c, opsExpand([]string{"$inc", "$mul"}, `{"@OP":{"%G":%N}}`, "")...)
	c = append(c, opsExpand([]string{"$push", "$addToSet"}, `{"@OP":{"%G":%V}}`, "any")...)
	c = append(c, opsExpand([]string{"$push", "$addToSet"}, `{"@OP":{"%G":{"$each":[%V,%S]}}}`, "any")...)
	c[len(c)-2].name += "-each"
	c[len(c)-1].name += "-each"
	c = append(c, ctx{"push-each-mods", `{"$push":{"%G":{"$each":[%V],"$position":0,"$slice":5}}}`, "any"})
	c = append(c, ctx{"pull-val", `{"$pull":{"%G":%V}}`, "any"})
	c = append(c, ctx{"pull-cond", `{"$pull":{"%G":{"$gte":%V}}}`, "any"})
	c = append(c, ctx{"pull-in", `{"$pull":{"%G":{"$in":[%V,%S]}}}`, "any"})
	c = append(c, ctx{"pull-doc", `{"$pull":{"%G":{"%G":%V}}}`, "any"})
	c = append(c, ctx{"pullAll", `{"$pullAll":{"%G":[%V,%S]}}`, "any"})
	c = append(c, ctx{"bit", `{"$bit":{"%G":{"and":%N}}}`, ""})
	c = append(c, ctx{"set-unset", `{"$set":{"%G":%V},"$unset":{"%G":""}}`, "any"})
	c = append(c, ctx{"replacement", `{"%G":%V,"%G":{"%G":%S}}`, "any"})
	c = append(c, ctx{"set-positional", `{"$set":{"%G.$[e].%G":%V}}`, "any"})
	return c
}

func updateReps() []ctx {
	var out []ctx
	for _, c := range updateCtxs() {
		switch c.name {
		case "set", "push-each", "pull-in", "replacement", "inc":
			out = append(out, c)
		}
	}
	return out
}

// aggregation expressions (literal positions)
func exprCtxs() []ctx {
	return []ctx{
		{"lit", `%V`, "any"},
		{"literal", `{"$literal":%V}`, "any"},
		{"concat", `{"$concat":["$%G",%S,%S]}`, ""},
		{"cond-arr", `{"$cond":[{"$eq":["$%G",%V]},%S,%S]}`, "any"},
		{"cond-doc", `{"$cond":{"if":{"$gte":["$%G",%V]},"then":%S,"else":%S}}`, "any"},
		{"switch", `{"$switch":{"branches":[{"case":{"$eq":["$%G",%V]},"then":%S}],"default":%S}}`, "any"},
		{"ifNull", `{"$ifNull":["$%G",%V]}`, "any"},
		{"in", `{"$in":["$%G",[%V,%S]]}`, "any"},
		{"map", `{"$map":{"input":"$%G","as":"x","in":{"$concat":["$$x",%S]}}}`, ""},
		{"filter", `{"$filter":{"input":"$%G","as":"x","cond":{"$eq":["$$x",%V]}}}`, "any"},
		{"reduce", `{"$reduce":{"input":"$%G","initialValue":%V,"in":{"$concat":["$$value",%S]}}}`, "any"},
		{"let", `{"$let":{"vars":{"v":%V},"in":{"$concat":["$$v",%S]}}}`, "any"},
		{"dateFromString", `{"$dateFromString":{"dateString":%S,"timezone":"UTC"}}`, ""},
		{"regexMatch", `{"$regexMatch":{"input":"$%G","regex":%S,"options":"i"}}`, ""},
		{"add", `{"$add":["$%G",%N]}`, ""},
		{"multiply", `{"$multiply":["$%G",%N,%N]}`, ""},
		{"split", `{"$split":["$%G",%S]}`, ""},
		{"replaceAll", `{"$replaceAll":{"input":"$%G","find":%S,"replacement":%S}}`, ""},
		{"indexOfBytes", `{"$indexOfBytes":["$%G",%S]}`, ""},
		{"setUnion", `{"$setUnion":[[%V,%S],"$%G"]}`, "any"},
		{"arrayElemAt", `{"$arrayElemAt":[[%V,%S],%N]}`, "any"},
		{"mergeObjects", `{"$mergeObjects":[{"%G":%V},"$%G"]}`, "any"},
		{"convert", `{"$convert":{"input":%V,"to":"string","onError":%S,"onNull":%S}}`, "any"},
		{"function", `{"$function":{"body":%S,"args":[%V],"lang":"js"}}`, "any"},
		{"eq-nested", `{"$eq":[{"$toLower":"$%G"},%V]}`, "any"},
		{"and-or", `{"$and":[{"$or":[{"$eq":["$%G",%V]},{"$ne":["$%G",%S]}]}]}`, "any"},
		{"dateAdd", `{"$dateAdd":{"startDate":{"$date":"<<D:@>>"},"unit":"day","amount":%N}}`, ""},
		{"substr", `{"$substrCP":[%S,%N,%N]}`, ""},
		{"toString", `{"$toString":%V}`, "any"},
		{"cmp", `{"$cmp":["$%G",%V]}`, "any"},
		{"trim", `{"$trim":{"input":"$%G","chars":%S}}`, ""},
		{"getField-lit", `{"$getField":{"field":"%G","input":{"$literal":{"%G":%V}}}}`, "any"},
	}
}

func exprReps() []ctx {
	var out []ctx
	for _, c := range exprCtxs() {
		switch c.name {
		case "lit", "cond-arr", "concat", "in":
			out = append(out, c)
		}
	}
	return out
}

// Atlas Search operators (the body of $search / $searchMeta next to "index")
func searchOpCtxs() []ctx {
	return []ctx{
		{"text", `"text":{"query":%S,"path":"%G"}`, ""},
		{"text-multi", `"text":{"query":[%S,%S],"path":["%G","%G"],"fuzzy":{"maxEdits":1}}`, ""},
		{"phrase", `"phrase":{"query":%S,"path":"%G","slop":2}`, ""},
		{"autocomplete", `"autocomplete":{"query":%S,"path":"%G","tokenOrder":"any"}`, ""},
		{"regex", `"regex":{"query":%S,"path":"%G","allowAnalyzedField":true}`, ""},
		{"wildcard", `"wildcard":{"query":%S,"path":"%G"}`, ""},
		{"queryString", `"queryString":{"defaultPath":"%G","query":%S}`, ""},
		{"equals", `"equals":{"path":"%G","value":%V}`, "scalar"},
		{"in", `"in":{"path":"%G","value":[%V,%S]}`, "scalar"},
		{"range-num", `"range":{"path":"%G","gte":%N,"lt":%N}`, ""},
		{"range-date", `"range":{"path":"%G","gt":{"$date":"<<D:@>>"},"lte":{"$date":"<<D:@>>"}}`, ""},
		{"range-str", `"range":{"path":"%G","gte":%S,"lt":%S}`, ""},
		{"near-num", `"near":{"path":"%G","origin":%N,"pivot":%N}`, ""},
		{"near-date", `"near":{"path":"%G","origin":{"$date":"<<D:@>>"},"pivot":7776000000}`, ""},
		{"moreLikeThis", `"moreLikeThis":{"like":{"%G":%S,"%G":%V}}`, "any"},
		{"moreLikeThis-arr", `"moreLikeThis":{"like":[{"%G":%S},{"%G":%V}]}`, "any"},
		{"compound", `"compound":{"must":[{"text":{"query":%S,"path":"%G"}}],"should":[{"phrase":{"query":%S,"path":"%G"}}],"mustNot":[{"equals":{"path":"%G","value":%V}}],"filter":[{"range":{"path":"%G","gte":%N}}],"minimumShouldMatch":1}`, "scalar"},
		{"compound-nested", `"compound":{"must":[{"compound":{"should":[{"text":{"query":%S,"path":"%G"}},{"wildcard":{"query":%S,"path":"%G"}}]}}]}`, ""},
		{"embeddedDocument", `"embeddedDocument":{"path":"%G","operator":{"compound":{"must":[{"text":{"path":"%G.%G","query":%S}}],"should":[{"equals":{"path":"%G.%G","value":%V}}]}}}`, "scalar"},
		{"span", `"span":{"term":{"path":"%G","query":%S}}`, ""},
		{"span-near", `"span":{"near":{"clauses":[{"term":{"path":"%G","query":%S}},{"term":{"path":"%G","query":%S}}],"slop":3}}`, ""},
		{"geoWithin", `"geoWithin":{"path":"%G","circle":{"center":{"type":"Point","coordinates":[%N,%N]},"radius":%N}}`, ""},
		{"geoShape", `"geoShape":{"path":"%G","relation":"within","geometry":{"type":"Polygon","coordinates":[[[%N,%N],[%N,%N]]]}}`, ""},
		{"text-highlight", `"text":{"query":%S,"path":"%G"},"highlight":{"path":"%G"}`, ""},
		{"text-score", `"text":{"query":%S,"path":"%G","score":{"boost":{"value":3}}},"returnStoredSource":true`, ""},
		{"text-synonyms", `"text":{"query":%S,"path":{"wildcard":"%G.*"},"synonyms":"syn"}`, ""},
		{"exists-text", `"compound":{"filter":[{"exists":{"path":"%G"}},{"text":{"query":%S,"path":"%G"}}]}`, ""},
	}
}

// ---------- expansion ----------

type gen struct {
	out   []tplSpec
	names map[string]bool
}

type filler struct{ s, n, b, g, c, d int }

// fill replaces the markers of text. The first %V receives value form vf, later ones "str".
func (f *filler) fill(text string, vf string) string {
	var sb strings.Builder
	first := true
	for i := 0; i < len(text); i++ {
		if text[i] == '%' && i+1 < len(text) {
			switch text[i+1] {
			case 'V':
				form := "str"
				if first {
					form = vf
					first = false
				}
				sb.WriteString(f.fill(vfText(form), ""))
				i++
				continue
			case 'S':
				f.s++
				fmt.Fprintf(&sb, `"<<S:s%d>>"`, f.s)
				i++
				continue
			case 'N':
				f.n++
				fmt.Fprintf(&sb, `"<<N:n%d>>"`, f.n)
				i++
				continue
			case 'B':
				f.b++
				fmt.Fprintf(&sb, `"<<B:b%d>>"`, f.b)
				i++
				continue
			case 'G':
				f.g++
				fmt.Fprintf(&sb, `<<G:g%d>>`, f.g)
				i++
				continue
			case 'C':
				f.c++
				fmt.Fprintf(&sb, `<<COLL:c%d>>`, f.c)
				i++
				continue
			}
		}
		if text[i] == '@' && i+3 <= len(text) && text[i:i+3] == "@>>" {
			// numbered hole of a value form: <<S:@>> etc.
			// find class start
			j := strings.LastIndex(text[:i], "<<")
			class := text[j+2 : i-1]
			switch class {
			case "N":
				f.n++
				fmt.Fprintf(&sb, "n%d", f.n)
			case "B":
				f.b++
				fmt.Fprintf(&sb, "b%d", f.b)
			case "D", "O", "B64":
				f.d++
				fmt.Fprintf(&sb, "x%d", f.d)
			default:
				f.s++
				fmt.Fprintf(&sb, "s%d", f.s)
			}
			continue
		}
		sb.WriteByte(text[i])
	}
	return sb.String()
}

const envelopeHead = `{"t":{"$date":"2024-05-01T10:00:00.123+00:00"},"s":"I","c":"@COMP","id":51803,"ctx":"conn42","msg":"@MSG","attr":{"type":"command","ns":"<<DB:db>>.<<COLL:coll>>","appName":"app","@KEY":`
const envelopeTail = `,"planSummary":"COLLSCAN","keysExamined":0,"docsExamined":120034,"numYields":93,"reslen":230,"remote":"<<IP:ip>>","protocol":"op_msg","durationMillis":1203}}`

type envelope struct{ name, comp, msg, key, pre, post string }

var envelopes = []envelope{
	{"cmd", "COMMAND", "Slow query", "command", "", ""},
	{"write", "WRITE", "Slow query", "command", "", ""},
	{"query", "QUERY", "Plan executor error during find command", "cmd", "", ""},
	{"slow-other", "NETWORK", "Slow query", "command", "", ""},
	{"orig", "COMMAND", "Slow query", "originatingCommand", `"command":{"getMore":{"$numberLong":"7731234"},"collection":"<<COLL:coll>>","batchSize":100,"$db":"<<DB:db>>"},`, ""},
	{"err-cmd", "COMMAND", "Slow query", "cmd", `"command":{"ping":1},`, ""},
}

func (e envelope) wrap(cmd string) string {
	h := strings.NewReplacer("@COMP", e.comp, "@MSG", e.msg, `"@KEY":`, e.pre+`"`+e.key+`":`).Replace(envelopeHead)
	return h + cmd + envelopeTail
}

func (g *gen) add(name, text string, tags ...string) {
	if g.names[name] {
		panic("duplicate template name " + name)
	}
	g.names[name] = true
	t := tplSpec{Name: name, Text: text, Tags: map[string]bool{}}
	for _, tg := range tags {
		t.Tags[tg] = true
	}
	g.out = append(g.out, t)
}

// commands with one slot @X for the part under test
type cmdHost struct {
	name string
	text string
	kind string // "filter" | "update" | "pipeline" | "docs" | "sort"
}

var cmdHosts = []cmdHost{
	{"find.filter", `{"find":"<<COLL:coll>>","filter":@X,"limit":10,"$db":"<<DB:db>>"}`, "filter"},
	{"count.query", `{"count":"<<COLL:coll>>","query":@X,"$db":"<<DB:db>>"}`, "filter"},
	{"distinct.query", `{"distinct":"<<COLL:coll>>","key":"status","query":@X,"$db":"<<DB:db>>"}`, "filter"},
	{"update.updates.q", `{"update":"<<COLL:coll>>","updates":[{"q":@X,"u":{"$set":{"%G":%S}},"multi":false,"upsert":false}],"ordered":true,"$db":"<<DB:db>>"}`, "filter"},
	{"delete.deletes.q", `{"delete":"<<COLL:coll>>","deletes":[{"q":@X,"limit":1}],"ordered":true,"$db":"<<DB:db>>"}`, "filter"},
	{"findAndModify.query", `{"findAndModify":"<<COLL:coll>>","query":@X,"update":{"$set":{"%G":%S}},"new":true,"$db":"<<DB:db>>"}`, "filter"},
	{"toplevel.q", `{"q":@X,"u":{"$set":{"%G":%S}},"multi":false,"upsert":false}`, "filter"},
	{"delete.toplevel.q", `{"q":@X,"limit":0}`, "filter"},
	{"aggregate.match", `{"aggregate":"<<COLL:coll>>","pipeline":[{"$match":@X}],"cursor":{},"$db":"<<DB:db>>"}`, "filter"},
	{"update.updates.u", `{"update":"<<COLL:coll>>","updates":[{"q":{"_id":%S},"u":@X,"multi":false,"upsert":true}],"ordered":true,"$db":"<<DB:db>>"}`, "update"},
	{"update.updates.u2", `{"update":"<<COLL:coll>>","updates":[{"q":{"%G":%S},"u":{"$set":{"%G":%S}}},{"q":{"%G":%S},"u":@X}],"$db":"<<DB:db>>"}`, "update"},
	{"findAndModify.update", `{"findAndModify":"<<COLL:coll>>","query":{"_id":%S},"update":@X,"upsert":true,"$db":"<<DB:db>>"}`, "update"},
	{"toplevel.u", `{"q":{"_id":%S},"u":@X,"multi":true,"upsert":false}`, "update"},
	{"update.pipeline-u", `{"update":"<<COLL:coll>>","updates":[{"q":{"_id":%S},"u":[{"$set":{"%G":@E}}],"multi":false}],"$db":"<<DB:db>>"}`, "expr"},
	{"toplevel.pipeline-u", `{"q":{"_id":%S},"u":[{"$set":{"%G":@E}}],"multi":false,"upsert":false}`, "expr"},
	{"findAndModify.pipeline-update", `{"findAndModify":"<<COLL:coll>>","query":{"_id":%S},"update":[{"$addFields":{"%G":@E}}],"$db":"<<DB:db>>"}`, "expr"},
	{"update.arrayFilters", `{"update":"<<COLL:coll>>","updates":[{"q":{"_id":%S},"u":{"$set":{"%G.$[e].%G":%S}},"arrayFilters":[@X],"multi":false}],"$db":"<<DB:db>>"}`, "filter"},
	{"findAndModify.arrayFilters", `{"findAndModify":"<<COLL:coll>>","query":{"_id":%S},"update":{"$set":{"%G.$[e]":%S}},"arrayFilters":[@X],"$db":"<<DB:db>>"}`, "filter"},
	{"insert.documents", `{"insert":"<<COLL:coll>>","documents":[@X,{"%G":%S}],"ordered":true,"$db":"<<DB:db>>"}`, "doc"},
	{"find.sort-only", `{"find":"<<COLL:coll>>","filter":{"%G":%S},"sort":{"%G":1,"%G":-1},"$db":"<<DB:db>>"}`, "none"},
}

// pipeline stages with an expression slot @E, a filter slot @X or a stage slot @P
type stageHost struct {
	name string
	text string
	kind string
}

var stageHosts = []stageHost{
	{"project", `{"$project":{"%G":@E,"%G":1}}`, "expr"},
	{"addFields", `{"$addFields":{"%G":@E}}`, "expr"},
	{"set", `{"$set":{"%G":@E,"%G.%G":@e}}`, "expr"},
	{"group-id", `{"$group":{"_id":@E,"%G":{"$sum":1}}}`, "expr"},
	{"group-id-doc", `{"$group":{"_id":{"%G":@E},"%G":{"$push":"$%G"}}}`, "expr"},
	{"group-acc", `{"$group":{"_id":"$%G","%G":{"$sum":@E},"%G":{"$push":{"%G":@e}}}}`, "expr"},
	{"replaceRoot", `{"$replaceRoot":{"newRoot":{"$mergeObjects":[{"%G":@E},"$$ROOT"]}}}`, "expr"},
	{"replaceWith", `{"$replaceWith":{"%G":@E}}`, "expr"},
	{"bucket", `{"$bucket":{"groupBy":"$%G","boundaries":[%V,%S],"default":%S,"output":{"%G":{"$sum":1}}}}`, "value"},
	{"bucket-output", `{"$bucket":{"groupBy":"$%G","boundaries":[0,10],"default":"other","output":{"%G":{"$push":@E}}}}`, "expr"},
	{"sortByCount", `{"$sortByCount":@E}`, "expr"},
	{"redact", `{"$redact":{"$cond":{"if":{"$eq":["$%G",%V]},"then":"$$PRUNE","else":"$$DESCEND"}}}`, "value"},
	{"documents", `{"$documents":[{"%G":%V},{"%G":%S}]}`, "value"},
	{"lookup-let", `{"$lookup":{"from":"%C","let":{"v":@E},"pipeline":[{"$match":{"$expr":{"$eq":["$%G","$$v"]}}}],"as":"%G"}}`, "expr"},
	{"lookup-pipeline", `{"$lookup":{"from":"%C","pipeline":[@P],"as":"%G"}}`, "stage"},
	{"lookup-pipeline-match", `{"$lookup":{"from":"%C","localField":"%G","foreignField":"%G","pipeline":[{"$match":@X}],"as":"%G"}}`, "filter"},
	{"graphLookup-startWith", `{"$graphLookup":{"from":"%C","startWith":@E,"connectFromField":"%G","connectToField":"%G","as":"%G","maxDepth":3}}`, "expr"},
	{"graphLookup-restrict", `{"$graphLookup":{"from":"%C","startWith":"$%G","connectFromField":"%G","connectToField":"%G","as":"%G","restrictSearchWithMatch":@X}}`, "filter"},
	{"unionWith-pipeline", `{"$unionWith":{"coll":"%C","pipeline":[@P]}}`, "stage"},
	{"facet", `{"$facet":{"%G":[@P],"%G":[{"$count":"n"}]}}`, "stage"},
	{"facet-match", `{"$facet":{"%G":[{"$match":@X},{"$limit":5}]}}`, "filter"},
	{"merge-whenMatched", `{"$merge":{"into":"%C","on":"_id","whenMatched":[{"$addFields":{"%G":@E}}],"whenNotMatched":"insert"}}`, "expr"},
	{"merge-let", `{"$merge":{"into":"%C","let":{"v":@E},"whenMatched":[{"$set":{"%G":"$$v"}}]}}`, "expr"},
	{"geoNear-query", `{"$geoNear":{"near":{"type":"Point","coordinates":[%N,%N]},"distanceField":"%G","query":@X,"maxDistance":%N,"spherical":true}}`, "filter"},
	{"setWindowFields", `{"$setWindowFields":{"partitionBy":"$%G","sortBy":{"%G":1},"output":{"%G":{"$sum":@E,"window":{"documents":["unbounded","current"]}}}}}`, "expr"},
	{"fill", `{"$fill":{"sortBy":{"%G":1},"output":{"%G":{"value":@E}}}}`, "expr"},
	{"match-after-unwind", `{"$unwind":"$%G"},{"$match":@X}`, "filter"},
	{"vectorSearch-filter", `{"$vectorSearch":{"index":"vidx","path":"%G","queryVector":[%N,%N,%N],"numCandidates":150,"limit":10,"filter":@X}}`, "filter"},
	{"search-then-match", `{"$search":{"index":"default","text":{"query":%S,"path":"%G"}}},{"$match":@X}`, "filter"},
	{"match-then-project", `{"$match":{"%G":%S}},{"$project":{"%G":@E}}`, "expr"},
}

func aggCmd(stages string) string {
	return `{"aggregate":"<<COLL:coll>>","pipeline":[` + stages + `],"cursor":{"batchSize":101},"allowDiskUse":true,"$db":"<<DB:db>>"}`
}

// buildCorpus enumerates the templates. tier "quick" keeps a representative subset.
func buildCorpus() []tplSpec {
	g := &gen{names: map[string]bool{}}
	std := envelopes[0]
	allVF := []string{}
	for _, v := range valueForms {
		allVF = append(allVF, v.name)
	}
	mk := func(env envelope, cmdText string, vf string) string {
		f := &filler{}
		return f.fill(env.wrap(cmdText), vf)
	}
	vfsFor := func(c ctx, full bool) []string {
		switch c.kind {
		case "any":
			if full {
				return allVF
			}
			return vfRep
		case "scalar":
			if full {
				return []string{"str", "date", "oid", "num", "bool"}
			}
			return []string{"str"}
		}
		return []string{"-"}
	}
	quickTag := func(vf string, c ctx) []string {
		if vf == "-" || vf == "str" {
			return []string{"quick"}
		}
		switch c.name {
		case "field", "set", "doc2", "lit", "documents", "moreLikeThis":
			return []string{"quick"}
		case "in", "push-each", "cond-arr", "bucket":
			if vf == "arrarrdoc" || vf == "date" {
				return []string{"quick"}
			}
		}
		return nil
	}
	// 1. command hosts x contexts x value forms
	for hi, h := range cmdHosts {
		var cs []ctx
		switch h.kind {
		case "filter":
			if hi == 0 {
				cs = filterCtxs()
			} else {
				cs = filterReps()
			}
		case "update":
			if h.name == "update.updates.u" {
				cs = updateCtxs()
			} else {
				cs = updateReps()
			}
		case "expr":
			cs = exprReps()
		case "doc":
			cs = []ctx{{"doc", `{"_id":%V,"%G":%S,"%G":{"%G":%S,"%G":[%S,{"%G":%S}]}}`, "any"}, {"doc2", `{"%G":%V}`, "any"}}
		case "none":
			g.add(h.name, mk(std, h.text, "str"), "quick", h.kind)
			continue
		}
		full := hi == 0 || h.name == "update.updates.u" || h.kind == "doc"
		for _, c := range cs {
			for _, vf := range vfsFor(c, full) {
				slot := "@X"
				if h.kind == "expr" {
					slot = "@E"
				}
				cmd := strings.Replace(h.text, slot, c.text, 1)
				name := h.name + "/" + c.name
				v := vf
				if vf != "-" {
					name += "/" + vf
				} else {
					v = "str"
				}
				tags := append(quickTag(vf, c), h.kind)
				if !full && !(c.name == "field" || c.name == "set" || c.name == "lit" || c.name == "in") {
					tags = []string{h.kind}
				}
				g.add(name, mk(std, cmd, v), tags...)
			}
		}
	}
	// 2. other envelopes with representative commands
	for _, env := range envelopes[1:] {
		for _, h := range []cmdHost{cmdHosts[0], cmdHosts[3], cmdHosts[4], cmdHosts[9], cmdHosts[18]} {
			var c ctx
			switch h.kind {
			case "filter":
				c = filterCtxs()[0]
			case "update":
				c = updateCtxs()[0]
			case "doc":
				c = ctx{"doc", `{"%G":%V}`, "any"}
			}
			for _, vf := range []string{"str", "arrdoc"} {
				cmd := strings.Replace(h.text, "@X", c.text, 1)
				tags := []string{"envelope", h.kind}
				if vf == "str" {
					tags = append(tags, "quick")
				}
				g.add("env:"+env.name+"/"+h.name+"/"+vf, mk(env, cmd, vf), tags...)
			}
		}
		g.add("env:"+env.name+"/aggregate/project", mk(env, aggCmd(`{"$match":{"%G":%V}},{"$project":{"%G":{"$concat":["$%G",%S]}}}`), "str"), "quick", "envelope", "pipeline")
	}
	// 3. pipeline stages
	inner := `{"$match":{"%G":%V}}`
	for _, sh := range stageHosts {
		switch sh.kind {
		case "expr":
			full := sh.name == "project"
			ecs := exprReps()
			if full {
				ecs = exprCtxs()
			}
			for _, ec := range ecs {
				if sh.name == "sortByCount" && ec.name == "lit" {
					continue // $sortByCount takes a '$field' path or an expression document, never a bare literal
				}
				vfs := vfsFor(ec, full && ec.name == "lit")
				if ec.kind == "any" && !(full && ec.name == "lit") {
					vfs = []string{"str", "arrdoc"}
					if !full {
						vfs = []string{"str"}
					}
				}
				for _, vf := range vfs {
					st := strings.Replace(sh.text, "@E", ec.text, 1)
					st = strings.Replace(st, "@e", `%S`, 1)
					name := "stage:" + sh.name + "/" + ec.name
					v := vf
					if vf != "-" {
						name += "/" + vf
					} else {
						v = "str"
					}
					tags := []string{"pipeline", "expr"}
					if (full && (vf == "str" || vf == "-")) || (full && ec.name == "lit") || (!full && ec.name == "lit") {
						tags = append(tags, "quick")
					}
					g.add(name, mk(std, aggCmd(st), v), tags...)
				}
			}
		case "filter":
			for _, fc := range filterReps() {
				for _, vf := range vfsFor(fc, false) {
					st := strings.Replace(sh.text, "@X", fc.text, 1)
					name := "stage:" + sh.name + "/" + fc.name
					v := vf
					if vf != "-" {
						name += "/" + vf
					} else {
						v = "str"
					}
					tags := []string{"pipeline", "filter"}
					if vf == "str" && (fc.name == "field" || fc.name == "in") {
						tags = append(tags, "quick")
					}
					g.add(name, mk(std, aggCmd(st), v), tags...)
				}
			}
		case "value":
			for _, vf := range allVF {
				st := sh.text
				tags := append(quickTag(vf, ctx{name: sh.name}), "pipeline", "value")
				g.add("stage:"+sh.name+"/"+vf, mk(std, aggCmd(st), vf), tags...)
			}
		case "stage":
			for pi, p := range []string{inner, `{"$addFields":{"%G":{"$concat":["$%G",%S]}}}`, `{"$lookup":{"from":"%C","pipeline":[{"$match":{"%G":{"$in":[%V,%S]}}}],"as":"%G"}}`, `{"$facet":{"%G":[{"$match":{"%G":%V}}]}}`} {
				for _, vf := range []string{"str", "arrdoc"} {
					if pi > 0 && vf != "str" {
						continue
					}
					st := strings.Replace(sh.text, "@P", p, 1)
					tags := []string{"pipeline", "stage"}
					if vf == "str" && pi != 1 {
						tags = append(tags, "quick")
					}
					g.add(fmt.Sprintf("stage:%s/inner%d/%s", sh.name, pi, vf), mk(std, aggCmd(st), vf), tags...)
				}
			}
		}
	}
	// 4. Atlas Search
	for _, host := range []struct{ name, pre, post string }{
		{"search", `{"$search":{"index":"default",`, `}},{"$limit":10}`},
		{"searchMeta", `{"$searchMeta":{"index":"default",`, `}}`},
		{"search-in-lookup", `{"$lookup":{"from":"%C","pipeline":[{"$search":{"index":"default",`, `}}],"as":"%G"}}`},
		{"search-in-unionWith", `{"$unionWith":{"coll":"%C","pipeline":[{"$search":{`, `}}]}}`},
		{"rankFusion", `{"$rankFusion":{"input":{"pipelines":{"%G":[{"$search":{"index":"default",`, `}}],"%G":[{"$match":{"%G":%S}}]}}}}`},
	} {
		for _, sc := range searchOpCtxs() {
			full := host.name == "search"
			if !full && !(sc.name == "text" || sc.name == "compound" || sc.name == "equals" || sc.name == "moreLikeThis") {
				continue
			}
			for _, vf := range vfsFor(sc, full) {
				st := host.pre + sc.text + host.post
				name := "search:" + host.name + "/" + sc.name
				v := vf
				if vf != "-" {
					name += "/" + vf
				} else {
					v = "str"
				}
				tags := []string{"search"}
				if (full && (vf == "-" || vf == "str" || (vf == "arrdoc" && sc.name == "moreLikeThis"))) || (!full && sc.name == "text") || (!full && sc.name == "moreLikeThis" && vf == "str") {
					tags = append(tags, "quick")
				}
				g.add(name, mk(std, aggCmd(st), v), tags...)
			}
		}
	}
	g.add("search:searchMeta/facet", mk(std, aggCmd(`{"$searchMeta":{"index":"default","facet":{"operator":{"range":{"path":"%G","gte":{"$date":"<<D:@>>"},"lt":{"$date":"<<D:@>>"}}},"facets":{"%G":{"type":"string","path":"%G","numBuckets":5},"%G":{"type":"number","path":"%G","boundaries":[%N,%N,%N],"default":"other"},"%G":{"type":"date","path":"%G","boundaries":[{"$date":"<<D:@>>"},{"$date":"<<D:@>>"}]}}}}}`), "str"), "search", "quick")
	g.add("search:vectorSearch", mk(std, aggCmd(`{"$vectorSearch":{"index":"vidx","path":"%G","queryVector":[%N,%N,%N],"numCandidates":150,"limit":10,"filter":{"$and":[{"%G":{"$gte":%V}},{"%G":{"$in":[%S,%S]}}]}}},{"$project":{"%G":1,"score":{"$meta":"vectorSearchScore"}}}`), "str"), "search", "quick")
	// 5. wide arrays (the other templates keep arrays at <= 2 elements): mostly numbers, with
	// string literals at the second and the second-to-last position; widths around powers of two
	for _, n := range []int{5, 17, 33} {
		var el []string
		for i := 0; i < n; i++ {
			if i == 1 || i == n-2 {
				el = append(el, "%S")
			} else {
				el = append(el, "%N")
			}
		}
		arr := "[" + strings.Join(el, ",") + "]"
		tags := []string{"wide"}
		if n == 17 {
			tags = append(tags, "quick")
		}
		g.add(fmt.Sprintf("wide:find.filter/in/%d", n), mk(std, `{"find":"<<COLL:coll>>","filter":{"%G":{"$in":`+arr+`}},"limit":10,"$db":"<<DB:db>>"}`, "str"), append([]string{"filter"}, tags...)...)
		g.add(fmt.Sprintf("wide:insert.documents/arr/%d", n), mk(std, `{"insert":"<<COLL:coll>>","documents":[{"%G":`+arr+`}],"ordered":true,"$db":"<<DB:db>>"}`, "str"), append([]string{"doc"}, tags...)...)
		g.add(fmt.Sprintf("wide:aggregate.expr/in/%d", n), mk(envelopes[2], aggCmd(`{"$match":{"$expr":{"$in":["$%G",`+arr+`]}}}`), "str"), append([]string{"pipeline"}, tags...)...)
	}
	sort.SliceStable(g.out, func(i, j int) bool { return g.out[i].Name < g.out[j].Name })
	return g.out
}

func corpusFor(tier string, tagFilter func(tplSpec) bool) []tplSpec {
	var out []tplSpec
	for _, t := range buildCorpus() {
		if tier == "quick" && !t.Tags["quick"] {
			continue
		}
		if tagFilter != nil && !tagFilter(t) {
			continue
		}
		out = append(out, t)
	}
	return out
}

// oddCorpus: lines with unusual shapes inside the zones (nulls, empty containers, nested
// arrays, operators holding unexpected value kinds, arbitrary keys of class F).
func oddCorpus(tier string) []tplSpec {
	g := &gen{names: map[string]bool{}}
	std := envelopes[0]
	mk := func(cmdText string) string {
		f := &filler{}
		return f.fill(std.wrap(cmdText), "str")
	}
	odd := []struct{ name, v string }{
		{"null", `null`}, {"emptyarr", `[]`}, {"emptyobj", `{}`}, {"arr-null", `[null]`}, {"arr-empty", `[[]]`},
		{"arr-arr-doc", `[[{"%G":%S}]]`}, {"arr-emptyobj", `[{}]`}, {"doc-null", `{"%G":null}`}, {"doc-emptyarr", `{"%G":[]}`},
		{"arr-mixed", `[%S,null,%N,{"%G":null},[%B,[]]]`}, {"num", `%N`}, {"bool", `%B`}, {"dollar-str", `"$<<F:f9>>"`}, {"arr-dollar", `["$<<F:f9>>",%S]`},
	}
	hosts := []struct{ name, text string }{
		{"filter-field", `{"find":"<<COLL:coll>>","filter":{"%G":@O},"$db":"<<DB:db>>"}`},
		{"filter-eq", `{"find":"<<COLL:coll>>","filter":{"%G":{"$eq":@O}}}`},
		{"filter-in", `{"find":"<<COLL:coll>>","filter":{"%G":{"$in":@O}}}`},
		{"filter-and", `{"find":"<<COLL:coll>>","filter":{"$and":@O}}`},
		{"filter-date", `{"find":"<<COLL:coll>>","filter":{"%G":{"$date":@O}}}`},
		{"filter-oid", `{"find":"<<COLL:coll>>","filter":{"_id":{"$oid":@O}}}`},
		{"filter-binary", `{"find":"<<COLL:coll>>","filter":{"%G":{"$binary":{"base64":@O,"subType":"00"}}}}`},
		{"update-set", `{"update":"<<COLL:coll>>","updates":[{"q":{"%G":%S},"u":{"$set":{"%G":@O}}}]}`},
		{"updates", `{"update":"<<COLL:coll>>","updates":@O}`},
		{"insert-docs", `{"insert":"<<COLL:coll>>","documents":[{"%G":@O}]}`},
		{"match", `{"aggregate":"<<COLL:coll>>","pipeline":[{"$match":{"%G":@O}}]}`},
		{"match-op", `{"aggregate":"<<COLL:coll>>","pipeline":[{"$match":@O}]}`},
		{"project", `{"aggregate":"<<COLL:coll>>","pipeline":[{"$project":{"%G":@O}}]}`},
		{"facet", `{"aggregate":"<<COLL:coll>>","pipeline":[{"$facet":{"%G":@O}}]}`},
		{"group", `{"aggregate":"<<COLL:coll>>","pipeline":[{"$group":{"_id":@O}}]}`},
		{"lookup", `{"aggregate":"<<COLL:coll>>","pipeline":[{"$lookup":{"from":"%C","pipeline":@O,"as":"%G"}}]}`},
		{"stage", `{"aggregate":"<<COLL:coll>>","pipeline":[@O]}`},
		{"pipeline", `{"aggregate":"<<COLL:coll>>","pipeline":@O}`},
		{"search-text", `{"aggregate":"<<COLL:coll>>","pipeline":[{"$search":{"text":{"query":@O,"path":"%G"}}}]}`},
		{"search-like", `{"aggregate":"<<COLL:coll>>","pipeline":[{"$search":{"moreLikeThis":{"like":@O}}}]}`},
		{"sort", `{"find":"<<COLL:coll>>","filter":{},"sort":{"%G":@O}}`},
		{"anykey", `{"find":"<<COLL:coll>>","filter":{"<<F:f1>>":@O}}`},
		{"anykey-nested", `{"find":"<<COLL:coll>>","filter":{"%G":{"<<F:f1>>":@O}}}`},
		{"anykey-stage", `{"aggregate":"<<COLL:coll>>","pipeline":[{"<<F:f1>>":@O}]}`},
		{"anykey-match", `{"aggregate":"<<COLL:coll>>","pipeline":[{"$match":{"<<F:f1>>":@O}}]}`},
		{"anykey-project", `{"aggregate":"<<COLL:coll>>","pipeline":[{"$project":{"%G":{"<<F:f1>>":@O}}}]}`},
		{"anykey-search", `{"aggregate":"<<COLL:coll>>","pipeline":[{"$search":{"<<F:f1>>":@O}}]}`},
	}
	for hi, h := range hosts {
		for oi, o := range odd {
			tags := []string{"odd"}
			if ((hi+oi)%3 == 0 && !(strings.HasPrefix(h.name, "anykey") && (o.name == "arr-arr-doc" || o.name == "arr-dollar" || o.name == "arr-mixed"))) || strings.HasPrefix(h.name, "anykey") && (o.name == "null" || o.name == "doc-null" || o.name == "num") {
				tags = append(tags, "quick")
			}
			g.add("odd:"+h.name+"/"+o.name, mk(strings.Replace(h.text, "@O", o.v, 1)), tags...)
		}
	}
	// other components and top-level oddities (outside every zone)
	g.add("odd:network", `{"t":{"$date":"2024-05-01T10:00:00.123+00:00"},"s":"I","c":"NETWORK","id":22943,"ctx":"listener","msg":"Connection accepted","attr":{"remote":"<<IP:ip>>","uuid":{"uuid":{"$uuid":"<<S:s1>>"}},"connectionId":"<<N:n1>>","connectionCount":12345678901234567890,"ratio":1.50e-7,"ok":"<<B:b1>>","nothing":null,"list":[1,[2,[]],{}]}}`, "odd", "quick")
	g.add("odd:other-with-command", `{"t":{"$date":"2024-05-01T10:00:00.123+00:00"},"s":"I","c":"ACCESS","id":1,"ctx":"conn1","msg":"note","attr":{"ns":"<<DB:db>>.<<COLL:coll>>","command":{"find":"<<COLL:coll>>","filter":{"<<G:g1>>":"<<S:s1>>"}},"n":"<<N:n1>>"}}`, "odd", "quick")
	g.add("odd:other-with-command-duration", `{"t":{"$date":"2024-05-01T10:00:00.123+00:00"},"s":"I","c":"SHARDING","id":1,"ctx":"conn1","msg":"Completed operation","attr":{"ns":"<<DB:db>>.<<COLL:coll>>","command":{"find":"<<COLL:coll>>","filter":{"<<G:g1>>":"<<S:s1>>","<<G:g2>>":"<<N:n1>>"},"$db":"<<DB:db>>"},"originatingCommand":{"aggregate":"<<COLL:coll>>","pipeline":[{"$match":{"<<G:g1>>":"<<S:s2>>"}}]},"tagSets":[[]],"chunkBounds":[[],[1,2]],"durationMillis":1203}}`, "odd", "quick")
	g.add("odd:attr-string", `{"t":{"$date":"2024-05-01T10:00:00.123+00:00"},"s":"I","c":"COMMAND","id":1,"ctx":"conn1","msg":"Slow query","attr":"<<S:s1>>"}`, "odd", "quick")
	g.add("odd:attr-null", `{"t":{"$date":"2024-05-01T10:00:00.123+00:00"},"s":"I","c":"COMMAND","id":1,"ctx":"conn1","msg":"Slow query","attr":null,"x":[[{"a":null}]]}`, "odd", "quick")
	g.add("odd:command-string", `{"t":{"$date":"2024-05-01T10:00:00.123+00:00"},"s":"I","c":"COMMAND","id":1,"ctx":"conn1","msg":"Slow query","attr":{"command":"<<S:s1>>","ns":"<<DB:db>>.<<COLL:coll>>","remote":"<<N:n1>>"}}`, "odd", "quick")
	g.add("odd:no-attr", `{"t":{"$date":"2024-05-01T10:00:00.123+00:00"},"s":"W","c":"<<S:s1>>","id":"<<N:n1>>","ctx":"<<S:s2>>","msg":"<<S:s3>>","tags":["<<S:s4>>"],"truncated":{"a":{"b":[]}}}`, "odd", "quick")
	var out []tplSpec
	for _, t := range g.out {
		if tier == "quick" && !t.Tags["quick"] {
			continue
		}
		out = append(out, t)
	}
	return out
}

// nsCorpus: lines whose interest is the namespace-bearing positions.
func nsCorpus(tier string) []tplSpec {
	g := &gen{names: map[string]bool{}}
	mk := func(env envelope, cmdText string) string {
		f := &filler{}
		return f.fill(env.wrap(cmdText), "str")
	}
	verbs := []string{"find", "aggregate", "insert", "update", "delete", "count", "findAndModify", "findOneAndDelete", "findOneAndReplace", "findOneAndUpdate", "replace", "getIndexes", "countDocuments", "distinct"}
	for i, v := range verbs {
		tags := []string{"ns"}
		if i%3 == 0 {
			tags = append(tags, "quick")
		}
		g.add("ns:verb/"+v, mk(envelopes[0], `{"`+v+`":"<<COLL:coll>>","filter":{"%G":%S},"$db":"<<DB:db>>","lsid":{"id":{"$uuid":"0b3c1f2a"}}}`), tags...)
	}
	for _, env := range envelopes[1:] {
		g.add("ns:env/"+env.name, mk(env, `{"find":"<<COLL:coll>>","filter":{"%G":%S},"$db":"<<DB:db>>"}`), "ns", "quick")
	}
	g.add("ns:getMore", mk(envelopes[0], `{"getMore":{"$numberLong":"7731234"},"collection":"<<COLL:coll>>","batchSize":100,"$db":"<<DB:db>>"}`), "ns", "quick")
	// lines without a command document, other components with attr.ns
	g.add("ns:cmd-only", `{"t":{"$date":"2024-05-01T10:00:00.123+00:00"},"s":"I","c":"COMMAND","id":51803,"ctx":"conn42","msg":"Slow query","attr":{"type":"command","ns":"<<DB:db>>.<<COLL:coll>>","cmd":{"find":"<<COLL:coll>>","filter":{"<<G:g1>>":"<<S:s1>>"},"$db":"<<DB:db>>"},"durationMillis":12}}`, "ns", "quick")
	g.add("ns:no-command", `{"t":{"$date":"2024-05-01T10:00:00.123+00:00"},"s":"I","c":"COMMAND","id":51803,"ctx":"conn42","msg":"Slow query","attr":{"type":"command","ns":"<<DB:db>>.<<COLL:coll>>","durationMillis":12}}`, "ns", "quick")
	g.add("ns:other-component", `{"t":{"$date":"2024-05-01T10:00:00.123+00:00"},"s":"I","c":"INDEX","id":20345,"ctx":"conn42","msg":"Index build: done building","attr":{"buildUUID":null,"ns":"<<DB:db>>.<<COLL:coll>>","index":"a_1","commitTimestamp":null}}`, "ns", "quick")
	g.add("ns:other-component-storage", `{"t":{"$date":"2024-05-01T10:00:00.123+00:00"},"s":"I","c":"STORAGE","id":20320,"ctx":"conn42","msg":"createCollection","attr":{"namespace":"x","ns":"<<DB:db>>.<<COLL:coll>>","uuidDisposition":"generated"}}`, "ns")
	stages := []struct{ name, text string }{
		{"lookup", `{"$lookup":{"from":"%C","localField":"%G","foreignField":"%G","as":"%G"}}`},
		{"lookup-pipeline", `{"$lookup":{"from":"%C","pipeline":[{"$lookup":{"from":"%C","localField":"%G","foreignField":"%G","as":"%G"}}],"as":"%G"}}`},
		{"graphLookup", `{"$graphLookup":{"from":"%C","startWith":"$%G","connectFromField":"%G","connectToField":"%G","as":"%G"}}`},
		{"unionWith-doc", `{"$unionWith":{"coll":"%C","pipeline":[{"$match":{"%G":%S}}]}}`},
		{"unionWith-str", `{"$unionWith":"%C"}`},
		{"unionWith-nested", `{"$unionWith":{"coll":"%C","pipeline":[{"$unionWith":{"coll":"%C","pipeline":[]}}]}}`},
		{"merge-str", `{"$merge":{"into":"%C","whenMatched":"replace"}}`},
		{"merge-doc", `{"$merge":{"into":{"db":"<<DB:d2>>","coll":"%C"},"on":"_id"}}`},
		{"merge-short", `{"$merge":"%C"}`},
		{"out-str", `{"$out":"%C"}`},
		{"out-doc", `{"$out":{"db":"<<DB:d2>>","coll":"%C"}}`},
		{"facet-lookup", `{"$facet":{"%G":[{"$lookup":{"from":"%C","localField":"%G","foreignField":"%G","as":"%G"}}]}}`},
	}
	for _, st := range stages {
		g.add("ns:stage/"+st.name, mk(envelopes[0], aggCmd(st.text)), "ns", "quick")
	}
	g.add("ns:stage-orig/lookup", mk(envelopes[4], aggCmd(stages[0].text)), "ns")
	g.add("ns:stage-errcmd/unionWith", mk(envelopes[5], aggCmd(stages[3].text)), "ns")
	var out []tplSpec
	for _, t := range g.out {
		if tier == "quick" && !t.Tags["quick"] {
			continue
		}
		out = append(out, t)
	}
	return out
}

// psCorpus: lines whose plan summary names index keys that also occur in the filter (C15,
// plan-summary clause). The format (Params["ps"]) uses %i for the i-th field name of the line.
type psSpec struct {
	tplSpec
	Format string
}

func psCorpus(tier string) []psSpec {
	mk := func(name, filter, format string, quick bool) psSpec {
		text := envelopes[0].wrap(`{"find":"<<COLL:coll>>","filter":` + filter + `,"$db":"<<DB:db>>"}`)
		ps := format
		for i := 0; i < 10; i++ {
			ps = strings.ReplaceAll(ps, fmt.Sprintf("%%%d", i), fmt.Sprintf("<<G:g%d>>", i+1))
		}
		ps = regexp.MustCompile(`%\{([^}]*)\}`).ReplaceAllString(ps, "$1")
		text = strings.Replace(text, `"planSummary":"COLLSCAN"`, `"planSummary":"`+ps+`"`, 1)
		if !strings.Contains(text, ps) {
			panic("psCorpus: plan summary not placed")
		}
		return psSpec{tplSpec{Name: "ps:" + name, Text: text, Tags: map[string]bool{"quick": quick, "ps": true}}, format}
	}
	all := []psSpec{
		mk("ixscan-1", `{"<<G:g1>>":"<<S:s1>>"}`, "IXSCAN { %0: 1 }", true),
		mk("ixscan-compound", `{"<<G:g1>>":"<<S:s1>>","<<G:g2>>":{"$gt":"<<S:s2>>"}}`, "IXSCAN { %0: 1, %1: -1 }", true),
		mk("ixscan-or", `{"$or":[{"<<G:g1>>":"<<S:s1>>"},{"<<G:g2>>":"<<S:s2>>"}]}`, "IXSCAN { %0: 1 }, IXSCAN { %1: 1 }", true),
		mk("ixscan-dotted", `{"<<G:g1>>":{"<<G:g2>>":"<<S:s1>>"}}`, "IXSCAN { %0.%1: 1 }", true),
		mk("ixscan-with-id", `{"<<G:g1>>":"<<S:s1>>"}`, "IXSCAN { %0: 1, %{_id}: 1 }", false),
		mk("express", `{"<<G:g1>>":"<<S:s1>>"}`, "EXPRESS_IXSCAN { %0: 1 }", false),
		mk("countscan", `{"<<G:g1>>":"<<S:s1>>"}`, "COUNT_SCAN { %0: 1 }", true),
		mk("distinctscan", `{"<<G:g1>>":"<<S:s1>>","<<G:g2>>":"<<S:s2>>"}`, "DISTINCT_SCAN { %0: 1, %1: 1 }", false),
		mk("collscan", `{"<<G:g1>>":"<<S:s1>>"}`, "COLLSCAN", true),
		mk("idhack", `{"<<G:g1>>":"<<S:s1>>"}`, "IDHACK", false),
		mk("ixscan-3", `{"<<G:g1>>":"<<S:s1>>","<<G:g2>>":"<<S:s2>>","<<G:g3>>":"<<S:s3>>"}`, "IXSCAN { %0: 1, %1: 1, %2: 1 }", false),
	}
	var out []psSpec
	for _, t := range all {
		if tier == "quick" && !t.Tags["quick"] {
			continue
		}
		out = append(out, t)
	}
	return out
}
