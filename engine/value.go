package main

import (
	"fmt"
	"go/types"
	"strings"

	"golang.org/x/tools/go/ssa"
)

// Value is one of:
//   bool | *Term(sort Bool)          booleans
//   Num                              integers (concrete or symbolic)
//   float64                          floats (concrete only)
//   Str                              strings (rope)
//   *Value                           pointers (nil pointer = (*Value)(nil))
//   SymPtr                           guarded pointer set
//   Struct, Array                    aggregates (value semantics; copied on load/store)
//   Slice                            slices
//   *MapV                            maps (nil map = (*MapV)(nil))
//   Iface                            interfaces
//   *ssa.Function, *ssa.Builtin, *Closure   function values
//   Tuple                            multiple results
//   *Opaque                          objects of stubbed library types
//   *MapIter, *StrIter               range iterators
type Value = any

type Num struct {
	c int64 // concrete value (canonical for the static type) when t == nil
	t *Term // symbolic: sort Int or BV
}

func (n Num) IsConst() bool { return n.t == nil }

func numTerm(n Num) *Term {
	if n.t != nil {
		return n.t
	}
	return TInt(n.c)
}

type Seg struct {
	c string // constant bytes (when t == nil)
	t *Term  // String-sorted term
}

// Str is a rope. Invariant: no empty constant segments, adjacent constants merged.
type Str struct {
	segs []Seg
	// lvlB: byte-level representation (concrete length, each byte a Num); nil unless level B
	b []Num
}

func mkStr(s string) Str {
	if s == "" {
		return Str{}
	}
	return Str{segs: []Seg{{c: s}}}
}

func mkStrT(t *Term) Str {
	if t.kind == KConst {
		return mkStr(t.s)
	}
	if t.kind == KApp && t.op == "str.++" {
		var segs []Seg
		for _, a := range t.args {
			if a.kind == KConst {
				segs = append(segs, Seg{c: a.s})
			} else {
				segs = append(segs, Seg{t: a})
			}
		}
		return Str{segs: segs}
	}
	return Str{segs: []Seg{{t: t}}}
}

func (s Str) Const() (string, bool) {
	if s.b != nil {
		bs := make([]byte, len(s.b))
		for i, n := range s.b {
			if n.t != nil {
				return "", false
			}
			bs[i] = byte(n.c)
		}
		return string(bs), true
	}
	switch len(s.segs) {
	case 0:
		return "", true
	case 1:
		if s.segs[0].t == nil {
			return s.segs[0].c, true
		}
	}
	return "", false
}

func (s Str) Term() *Term {
	if s.b != nil {
		var parts []*Term
		for _, n := range s.b {
			if n.t == nil {
				parts = append(parts, TStr(string([]byte{byte(n.c)})))
			} else {
				parts = append(parts, TStrFromCode(bvToInt(n.t)))
			}
		}
		return TConcat(parts...)
	}
	var parts []*Term
	for _, g := range s.segs {
		if g.t == nil {
			parts = append(parts, TStr(g.c))
		} else {
			parts = append(parts, g.t)
		}
	}
	return TConcat(parts...)
}

func bvToInt(t *Term) *Term {
	if t.sort == SInt {
		return t
	}
	return TBV2Int(t)
}

func strConcat(a, b Str) Str {
	if a.b != nil || b.b != nil {
		ab, ok1 := a.bytesB()
		bb, ok2 := b.bytesB()
		if ok1 && ok2 {
			return Str{b: append(append([]Num{}, ab...), bb...)}
		}
		return mkStrT(TConcat(a.Term(), b.Term()))
	}
	if len(a.segs) == 0 {
		return b
	}
	if len(b.segs) == 0 {
		return a
	}
	segs := append([]Seg{}, a.segs...)
	for _, g := range b.segs {
		if g.t == nil && len(segs) > 0 && segs[len(segs)-1].t == nil {
			segs[len(segs)-1] = Seg{c: segs[len(segs)-1].c + g.c}
		} else {
			segs = append(segs, g)
		}
	}
	return Str{segs: segs}
}

// bytesB returns a level-B view if the string has concrete length.
func (s Str) bytesB() ([]Num, bool) {
	if s.b != nil {
		return s.b, true
	}
	if c, ok := s.Const(); ok {
		out := make([]Num, len(c))
		for i := 0; i < len(c); i++ {
			out[i] = Num{c: int64(c[i])}
		}
		if out == nil {
			out = []Num{}
		}
		return out, true
	}
	return nil, false
}

func (s Str) String() string {
	if c, ok := s.Const(); ok {
		return fmt.Sprintf("%q", c)
	}
	return "str:" + s.Term().SMT()
}

type Struct []Value
type Array []Value
type Tuple []Value

// Slice is a view [off, off+len) of a backing array with capacity cap.
type Slice struct {
	arr      *[]Value // backing array (fixed length); nil for the nil slice
	off      int
	len, cap int
	rope     *Str // immutable byte view of a symbolic string ([]byte(s)); arr == nil
}

func (s Slice) IsNil() bool { return s.arr == nil && s.rope == nil }

func (s Slice) At(i int) *Value { return &(*s.arr)[s.off+i] }

type Iface struct {
	t types.Type // dynamic type; nil for the nil interface
	v Value
}

type Closure struct {
	Fn  *ssa.Function
	Env []Value
}

// Opaque is an object of a library type that is modelled by intrinsics.
type Opaque struct {
	kind string
	data any
}

type PtrCand struct {
	g *Term
	p *Value
}

// SymPtr is a set of guarded candidate pointers (result of a map lookup with a symbolic key).
type SymPtr struct {
	cands []PtrCand
	// path of field selections applied lazily (so that candidates stay element pointers)
}

type MapEntry struct {
	k       Value
	v       *Value
	deleted bool
}

type MapV struct {
	entries []*MapEntry
	index   map[string]*MapEntry // constant string keys
	ikeys   map[int64]*MapEntry  // constant int keys
	n       int
	symKeys int // number of live entries with symbolic keys
	// deferred updates with symbolic keys (flushed before any read of the map)
	pendingK []Value
	pendingV []Value
}

func newMap() *MapV { return &MapV{index: map[string]*MapEntry{}, ikeys: map[int64]*MapEntry{}} }

type MapIter struct {
	m   *MapV
	pos int
}

type StrIter struct {
	s   string
	pos int
}

// ---------- zero values ----------

func zero(t types.Type) Value {
	switch t := t.Underlying().(type) {
	case *types.Basic:
		switch {
		case t.Kind() == types.UntypedNil:
			panic(abort("untyped nil zero"))
		case t.Info()&types.IsBoolean != 0:
			return false
		case t.Info()&types.IsInteger != 0:
			return Num{}
		case t.Info()&types.IsFloat != 0:
			return float64(0)
		case t.Info()&types.IsString != 0:
			return Str{}
		case t.Kind() == types.UnsafePointer:
			return (*Value)(nil)
		case t.Info()&types.IsComplex != 0:
			return complex128(0)
		}
	case *types.Pointer:
		return (*Value)(nil)
	case *types.Array:
		a := make(Array, t.Len())
		for i := range a {
			a[i] = zero(t.Elem())
		}
		return a
	case *types.Slice:
		return Slice{}
	case *types.Struct:
		s := make(Struct, t.NumFields())
		for i := range s {
			s[i] = zero(t.Field(i).Type())
		}
		return s
	case *types.Tuple:
		if t.Len() == 1 {
			return zero(t.At(0).Type())
		}
		s := make(Tuple, t.Len())
		for i := range s {
			s[i] = zero(t.At(i).Type())
		}
		return s
	case *types.Map:
		return (*MapV)(nil)
	case *types.Interface:
		return Iface{}
	case *types.Signature:
		return (*ssa.Function)(nil)
	case *types.Chan:
		return (*Opaque)(nil)
	}
	panic(abort(fmt.Sprintf("zero: unsupported type %v", t)))
}

// copyVal implements value semantics of aggregates.
func copyVal(v Value) Value {
	switch v := v.(type) {
	case Struct:
		n := make(Struct, len(v))
		for i, x := range v {
			n[i] = copyVal(x)
		}
		return n
	case Array:
		n := make(Array, len(v))
		for i, x := range v {
			n[i] = copyVal(x)
		}
		return n
	}
	return v
}

func isNilPtr(v Value) bool {
	switch p := v.(type) {
	case *Value:
		return p == nil
	case *Opaque:
		return p == nil
	}
	return false
}

func show(v Value) string {
	switch v := v.(type) {
	case nil:
		return "<nil>"
	case bool:
		return fmt.Sprint(v)
	case *Term:
		return v.SMT()
	case Num:
		if v.t != nil {
			return v.t.SMT()
		}
		return fmt.Sprint(v.c)
	case Str:
		return v.String()
	case Iface:
		if v.t == nil {
			return "iface(nil)"
		}
		return fmt.Sprintf("iface(%v: %s)", v.t, show(v.v))
	case Struct:
		var p []string
		for _, x := range v {
			p = append(p, show(x))
		}
		return "{" + strings.Join(p, ", ") + "}"
	case Slice:
		if v.rope != nil {
			return "bytes(" + v.rope.String() + ")"
		}
		if v.arr == nil {
			return "[]nil"
		}
		var p []string
		for i := 0; i < v.len && i < 8; i++ {
			p = append(p, show(*v.At(i)))
		}
		return fmt.Sprintf("[%d/%d]{%s}", v.len, v.cap, strings.Join(p, ", "))
	case *Value:
		if v == nil {
			return "nilptr"
		}
		return fmt.Sprintf("&%p", v)
	case *Opaque:
		if v == nil {
			return "opaque(nil)"
		}
		return "opaque:" + v.kind
	case *ssa.Function:
		if v == nil {
			return "func(nil)"
		}
		return v.String()
	}
	return fmt.Sprintf("%T", v)
}
