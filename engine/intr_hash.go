package main

// hash.Hash idiom (sha256.New / sha1.New / md5.New / sha512.New, hmac.New(h, key); Write; Sum):
// the digest bytes are uninterpreted functions of (algorithm, key, message) - functional
// consistency only, like sha256.Sum256. Digests of concrete data are computed natively.

import (
	"crypto/hmac"
	"crypto/md5"
	"crypto/sha1"
	"crypto/sha256"
	"crypto/sha512"
	"fmt"
	"go/types"
	"hash"
	"strings"

	"golang.org/x/tools/go/ssa"
)

type hashObj struct {
	algo string
	key  *Str
	buf  Str
}

var hashIfaceType = types.NewPointer(types.NewNamed(types.NewTypeName(0, nil, "verifHash", nil), types.NewStruct(nil, nil), nil))

var hashCtors = map[string]struct {
	mk   func() hash.Hash
	size int
}{
	"crypto/sha256.New": {sha256.New, 32},
	"crypto/sha1.New":   {sha1.New, 20},
	"crypto/md5.New":    {md5.New, 16},
	"crypto/sha512.New": {sha512.New, 64},
}

func hashDigest(m *Machine, h *hashObj) []Value {
	base := strings.TrimPrefix(h.algo, "hmac:")
	ctor := hashCtors[base]
	out := make([]Value, ctor.size)
	msg, okm := h.buf.Const()
	key, okk := "", true
	if h.key != nil {
		key, okk = h.key.Const()
	}
	if okm && okk {
		var hh hash.Hash
		if h.key != nil {
			hh = hmac.New(ctor.mk, []byte(key))
		} else {
			hh = ctor.mk()
		}
		hh.Write([]byte(msg))
		for i, b := range hh.Sum(nil) {
			out[i] = Num{c: int64(b)}
		}
		return out
	}
	args := []*Term{h.buf.Term()}
	name := "digest:" + base
	if h.key != nil {
		name = "digest:hmac:" + base
		args = append(args, h.key.Term())
	}
	if base == "crypto/sha256.New" && h.key == nil {
		name = "" // same symbol as sha256.Sum256
	}
	for i := range out {
		if name == "" {
			out[i] = Num{t: TUF(fmt.Sprintf("sha256byte#%d", i), SBV8, args...)}
		} else {
			out[i] = Num{t: TUF(fmt.Sprintf("%s#%d", name, i), SBV8, args...)}
		}
	}
	return out
}

func init() {
	extraHarness = append(extraHarness, func(e *Engine) {
		in := e.intrinsics
		for name := range hashCtors {
			nm := name
			in[nm] = func(m *Machine, fr *frame, a []Value) Value {
				return Iface{t: hashIfaceType, v: &Opaque{kind: "hash", data: &hashObj{algo: nm}}}
			}
		}
		in["crypto/hmac.New"] = func(m *Machine, fr *frame, a []Value) Value {
			f, ok := a[0].(*ssa.Function)
			if !ok || f == nil {
				panic(abort("hmac.New with a non-static hash constructor"))
			}
			if _, ok := hashCtors[f.String()]; !ok {
				panic(abort("hmac.New over unmodelled hash " + f.String()))
			}
			k := m.bytesToStr(a[1].(Slice)).(Str)
			return Iface{t: hashIfaceType, v: &Opaque{kind: "hash", data: &hashObj{algo: "hmac:" + f.String(), key: &k}}}
		}
		e.opaqueMethods["hash.Write"] = func(m *Machine, fr *frame, a []Value) Value {
			h := a[0].(*Opaque).data.(*hashObj)
			s := m.bytesToStr(a[1].(Slice)).(Str)
			h.buf = strConcat(h.buf, s)
			return Tuple{Num{t: TLen(s.Term())}, Iface{}}
		}
		e.opaqueMethods["hash.Reset"] = func(m *Machine, fr *frame, a []Value) Value {
			a[0].(*Opaque).data.(*hashObj).buf = Str{}
			return nil
		}
		e.opaqueMethods["hash.Size"] = func(m *Machine, fr *frame, a []Value) Value {
			h := a[0].(*Opaque).data.(*hashObj)
			return Num{c: int64(hashCtors[strings.TrimPrefix(h.algo, "hmac:")].size)}
		}
		e.opaqueMethods["hash.Sum"] = func(m *Machine, fr *frame, a []Value) Value {
			h := a[0].(*Opaque).data.(*hashObj)
			pre := a[1].(Slice)
			var arr []Value
			for i := 0; i < pre.len; i++ {
				arr = append(arr, *pre.At(i))
			}
			arr = append(arr, hashDigest(m, h)...)
			return Slice{arr: &arr, len: len(arr), cap: len(arr)}
		}
	})
}
