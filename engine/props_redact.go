package main

// Property checks over the template corpus (C01 ...).

import (
	"fmt"
	"regexp"
	"strings"
)

var walkerFunctions = []string{"RedactMongoLog", "redactCommand", "redactNamespace", "redactQueryValues", "redactPipelineStage",
	"redactArrayValuesWithKey", "redactArrayValues", "redactScalarValue", "redactString", "getOp", "traverseMapPath", "augmentOp",
	"isInSearchStage", "isRedactableFieldPatternInArray", "reMatchesAnyKeyInPath", "RemoveElementAfter", "RemoveElementsBeforeIncluding",
	"HashName", "IsEmail", "UnmarshalOrdered", "parseValue", "MarshalOrdered", "redactFieldNamesFromPlanSummary", "ParsePlanSummary"}

var commonTrusted = []string{
	"gosym SSA interpreter (/verif/engine) - validated on every run against the real build on the repository's fixtures and on solver models of sampled paths",
	"SMT solvers cvc5 1.0.3 and z3 5.1.0",
	"encoding/json Decoder/Marshal contract: a line is its token stream; strings are serialised by an injective function jstr; number text is passed through",
	"crypto/sha256 as uninterpreted function (functional consistency only)",
	"regexp.MatchString as uninterpreted predicate in verdict queries (definition added when a model is built)",
}

// localityJob: two lines for H_c06_local (each line alone in a fresh process state vs both in one run).
func localityJob(name, cmd0, cmd1 string, params map[string]string) *Job {
	f0, f1 := &filler{}, &filler{}
	t0, err0 := ParseTemplate("L0", f0.fill(envelopes[0].wrap(cmd0), "str"))
	t1, err1 := ParseTemplate("L1", f1.fill(envelopes[0].wrap(cmd1), "str"))
	if err0 != nil || err1 != nil {
		panic(fmt.Sprint("locality pair ", name, err0, err1))
	}
	return &Job{Name: "local:" + name, Harness: "H_c06_local", Lines: map[string]*Template{"L0": t0, "L1": t1}, Params: params}
}

func templateJobs(harness string, specs []tplSpec, params map[string]string) []*Job {
	var jobs []*Job
	for _, s := range specs {
		tpl, err := ParseTemplate("L0", s.Text)
		if err != nil {
			panic(fmt.Sprintf("template %s: %v", s.Name, err))
		}
		jobs = append(jobs, &Job{Name: s.Name, Harness: harness, Lines: map[string]*Template{"L0": tpl}, Params: params})
	}
	return jobs
}

// twoRunJobs: every template bound to L0 and L1; L1 shares all holes of L0 except the
// classes listed in vary (self-composition).
func twoRunJobs(harness string, specs []tplSpec, vary string, params map[string]string) []*Job {
	var jobs []*Job
	for _, s := range specs {
		t0, err := ParseTemplate("L0", s.Text)
		if err != nil {
			panic(fmt.Sprintf("template %s: %v", s.Name, err))
		}
		t1, _ := ParseTemplate("L1", s.Text)
		p := map[string]string{"share.L1": "L0", "vary.L1": vary}
		for k, v := range params {
			p[k] = v
		}
		jobs = append(jobs, &Job{Name: s.Name, Harness: harness, Lines: map[string]*Template{"L0": t0, "L1": t1}, Params: p})
	}
	return jobs
}

func init() {
	propChecks["C02"] = &PropCheck{
		ID:    "C02",
		Title: "Output is independent of the redacted values (non-interference)",
		Jobs: func(e *Engine, tier string) []*Job {
			p := map[string]string{}
			if tier == "thorough" {
				p["allowEmpty"] = "yes"
			}
			return twoRunJobs("H_c02", corpusFor(tier, nil), "S,D,O,B64,N,B,IP", p)
		},
		Functions: walkerFunctions,
		Witness:   []string{"emitted"},
		Bounds: map[string]any{
			"templates":      "as C01 (engine/spec.go corpus); each template is run twice (self-composition) with all sensitive literals re-assigned",
			"literal_length": "unbounded (SMT strings), the two assignments are unrelated except for the lexical class",
			"flags":          "redactNumbers, redactBooleans, redactIPs, redactNamespaces, replacement text: symbolic, equal in both runs",
			"outside":        "encrypt mode (C10), selective mode (C14), field-name mode (C15)",
		},
		Assumptions: []string{
			"each literal keeps its lexical class: leading '$' status, IsEmail(s) agrees (the real classifier is executed on both values); numbers/booleans/IP arbitrary only when their flag is on",
			"user field names and namespace parts are single path components outside the operator vocabulary (class G)",
		},
		Trusted: commonTrusted,
	}
	treeBounds := func(extra string) map[string]any {
		return map[string]any{
			"templates":      "engine/spec.go corpus (as C01) plus odd-shape templates (nulls, empty / nested arrays, operators holding unexpected value kinds)",
			"literal_length": "unbounded (SMT strings)",
			"flags":          "redactNumbers, redactBooleans, redactIPs, redactNamespaces, replacement text: symbolic",
			"oracle":         "independent ordered parser + reference serialiser in /verif/harness/zz_verif_tree.go, executed symbolically together with the real code",
			"outside":        extra,
		}
	}
	propChecks["C03"] = &PropCheck{
		ID: "C03", Title: "Redaction preserves the JSON shape of every line",
		Jobs: func(e *Engine, tier string) []*Job {
			return append(templateJobs("H_c03", corpusFor(tier, nil), map[string]string{}), templateJobs("H_c03", oddCorpus(tier), map[string]string{"fix": "ns+ip"})...)
		},
		Functions: walkerFunctions, Witness: []string{"emitted"},
		Bounds:      treeBounds("--redactFieldNames (renames keys by design); duplicate sibling keys; inputs as bytes (the JSON tokenizer is behind the Decoder contract)"),
		Assumptions: []string{"user field names of class G are single path components outside the operator vocabulary; names of class F are arbitrary (may collide with the vocabulary)"},
		Trusted:     commonTrusted,
	}
	propChecks["C04"] = &PropCheck{
		ID: "C04", Title: "Nothing outside the redaction zones is altered (insight preservation)",
		Jobs: func(e *Engine, tier string) []*Job {
			return append(templateJobs("H_c04", corpusFor(tier, nil), map[string]string{}), templateJobs("H_c04", oddCorpus(tier), map[string]string{})...)
		},
		Functions: walkerFunctions, Witness: []string{"emitted"},
		Bounds:      treeBounds("number formatting inside encoding/json (number text is passed through as json.Number by contract)"),
		Assumptions: []string{"zones as written in harness/zz_verif_tree.go from the property text"},
		Trusted:     commonTrusted,
	}
	propChecks["C05"] = &PropCheck{
		ID: "C05", Title: "Type-aware placeholders: each redacted leaf stays a valid member of its class",
		Jobs: func(e *Engine, tier string) []*Job {
			p := map[string]string{}
			if tier == "quick" {
				p["nonEmpty"] = "yes" // quick: literals non-empty (the empty literal is covered by the thorough tier and by C03/C04)
			}
			jobs := templateJobs("H_c05", corpusFor(tier, nil), p)
			// the class placeholders also apply where selective mode redacts (a literal under a matching
			// field name): the typed value forms of the corpus through the selective-mode harness
			pat := `^(ssn|email|phoneNumber)$`
			for _, sp := range corpusFor(tier, func(t tplSpec) bool {
				n := t.Name[strings.LastIndex(t.Name, "/")+1:]
				return !t.Tags["search"] && !strings.Contains(strings.ToLower(t.Name), "search") && (n == "bin" || n == "date" || n == "oid" || n == "email")
			}) {
				tpl, err := ParseTemplate("L0", sp.Text)
				if err != nil {
					panic(err)
				}
				jobs = append(jobs, &Job{Name: sp.Name + "~selective", Harness: "H_c14", Lines: map[string]*Template{"L0": tpl}, Params: map[string]string{"regexp": pat}})
			}
			return jobs
		},
		Functions: walkerFunctions, Witness: []string{"emitted"},
		Bounds:      treeBounds("encrypt mode; selective mode"),
		Assumptions: []string{"'e-mail shaped' = the WHATWG e-mail regular expression with length 3..254 (harness/zz_verif_h_tree.go)"},
		Trusted:     commonTrusted,
	}
	propChecks["C19"] = &PropCheck{
		ID: "C19", Title: "Redacted output is a fixed point of redaction",
		Jobs: func(e *Engine, tier string) []*Job {
			ne := map[string]string{}
			if tier == "quick" {
				ne["nonEmpty"] = "yes"
			}
			return append(templateJobs("H_c19", corpusFor(tier, nil), ne), templateJobs("H_c19", oddCorpus(tier), map[string]string{"fix": "ns+ip"})...)
		},
		Functions: walkerFunctions, Witness: []string{"emitted"},
		Bounds:      treeBounds("namespace / field-name pseudonymisation, encrypt mode, selective mode; e-mail-shaped replacement text"),
		Assumptions: []string{"the emitted rope is read back as the token stream it was written from (unquote(jstr(x)) = x, number text unchanged): contract of encoding/json, engine/intr_core.go tokenizeRope"},
		Trusted:     commonTrusted,
	}
	propChecks["C12"] = &PropCheck{
		ID: "C12", Title: "Namespace pseudonymisation is complete, consistent and confined",
		Jobs: func(e *Engine, tier string) []*Job {
			specs := nsCorpus(tier)
			if tier != "quick" {
				specs = append(specs, corpusFor("quick", func(t tplSpec) bool { return t.Tags["pipeline"] || t.Tags["envelope"] })...)
			}
			jobs := templateJobs("H_c12", specs, map[string]string{})
			// --redactNamespaces together with --redactFieldNames: the namespace claims hold unchanged
			var both []tplSpec
			for _, sp := range specs {
				if strings.HasPrefix(sp.Name, "ns:verb/find") || strings.HasPrefix(sp.Name, "ns:env/") || sp.Name == "ns:getMore" || sp.Name == "ns:stage/lookup" {
					both = append(both, sp)
				}
			}
			for _, j := range templateJobs("H_c12", both, map[string]string{"fieldNames": "sym"}) {
				j.Name += "~fn"
				jobs = append(jobs, j)
			}
			return jobs
		},
		Functions: walkerFunctions, Witness: []string{"emitted"},
		Bounds: map[string]any{
			"templates": "engine/spec.go nsCorpus: every command verb the tool declares, every envelope (command / cmd / originatingCommand / no command / other components with attr.ns), namespace-bearing stages ($lookup, $graphLookup, $unionWith, $merge, $out; string and document forms; nested in $facet / sub-pipelines)",
			"names":     "database and foreign collection names: arbitrary single components; the operation's collection name: arbitrary with <= 2 dots and <= 2 leading '$'",
			"flags":     "redactNamespaces on (and off for the confinement comparison); replacement text symbolic; numbers/booleans/IPs switches fixed off",
		},
		Assumptions: []string{"pseudonym form as documented: '<replacement>_<hex of first 8 bytes of SHA-256(component)>', component-wise, leading '$' ignored (harness/zz_verif_h_ns.go verifPseudoName)",
			"a name is not a substring of output text that does not depend on it"},
		Trusted: commonTrusted,
	}
	propChecks["C13"] = &PropCheck{
		ID: "C13", Title: "Pseudonyms are a stable, collision-free, component-wise function of the name",
		Jobs: func(e *Engine, tier string) []*Job {
			return []*Job{{Name: "HashName", Harness: "H_c13", Lines: map[string]*Template{}, Params: map[string]string{}}}
		},
		Functions: []string{"HashName"}, Witness: []string{"emitted"},
		Bounds: map[string]any{
			"name":        "arbitrary string with <= 2 dots and <= 2 leading '$' (engine split / trim bounds); component contents and lengths unbounded",
			"replacement": "arbitrary string",
			"side_table":  "arbitrary pre-state entries for the queried names",
		},
		Assumptions: []string{"collision-freeness of SHA-256 truncated to 64 bits is outside the claim: injectivity is shown relative to the 8-byte digest (equal pseudonyms imply equal digests, all 8 bytes used)",
			"cross-process stability: HashName reaches no clock, randomness or environment call (any such call would abort the path as unmodelled)"},
		Trusted: commonTrusted,
	}
	propChecks["C14"] = &PropCheck{
		ID: "C14", Title: "Selective mode redacts exactly the values under a matching field name",
		Jobs: func(e *Engine, tier string) []*Job {
			family := []string{`^(ssn|email|phoneNumber)$`, `(?i)^ssn$`, `secret`}
			var jobs []*Job
			specs := corpusFor(tier, func(t tplSpec) bool { return !t.Tags["search"] && !strings.Contains(strings.ToLower(t.Name), "search") })
			for fi, pat := range family {
				re := regexp.MustCompile(pat)
				for v := range e.vocab {
					if !strings.ContainsAny(v, " \n%") && re.MatchString(v) {
						panic("regexp family member " + pat + " matches vocabulary word " + v)
					}
				}
				for si, sp := range specs {
					if tier == "quick" && (si+2*fi)%6 != 0 {
						continue // quick: each template with one member of the family (rotating)
					}
					tpl, err := ParseTemplate("L0", sp.Text)
					if err != nil {
						panic(err)
					}
					jobs = append(jobs, &Job{Name: sp.Name + "~re" + fmt.Sprint(fi), Harness: "H_c14", Lines: map[string]*Template{"L0": tpl}, Params: map[string]string{"regexp": pat}})
				}
			}
			// "depends only on the names on the path": not on what earlier lines of the run contained
			jobs = append(jobs, localityJob("dotted|nested", `{"find":"<<COLL:coll>>","filter":{"%G.%G":%S},"$db":"<<DB:db>>"}`, `{"find":"<<COLL:coll>>","filter":{"%G":{"%G":%S}},"$db":"<<DB:db>>"}`, map[string]string{"mode": "selective"}))
			return jobs
		},
		Functions: walkerFunctions, Witness: []string{"emitted"},
		Bounds: map[string]any{
			"templates":     "engine/spec.go corpus without Atlas Search stages (the property lets search stages redact more)",
			"regexp_family": "^(ssn|email|phoneNumber)$, (?i)^ssn$, secret (substring); each checked at load to match no word of the tool's vocabulary, so a match can only be a user field name",
			"field_names":   "symbolic (class G), single components; whether a name matches is an uninterpreted predicate in verdict queries (both outcomes explored for every name)",
			"flags":         "redactNumbers, redactBooleans, replacement: symbolic; namespaces / IPs off",
		},
		Assumptions: []string{"no obligation where the property text does not settle the expected behaviour: literals below a dotted key, literals that are siblings of a '$field' operand in an expression array"},
		Trusted:     commonTrusted,
	}
	propChecks["C15"] = &PropCheck{
		ID: "C15", Title: "Field-name redaction renames consistently, completely, only in chosen namespaces",
		Jobs: func(e *Engine, tier string) []*Job {
			specs := corpusFor(tier, func(t tplSpec) bool {
				return !t.Tags["search"] && !strings.Contains(t.Name, "search") && (tier != "quick" || t.Tags["filter"] || t.Tags["update"] || t.Tags["doc"] || t.Tags["none"] || strings.Contains(t.Name, "/lit/str") || strings.Contains(t.Name, "concat"))
			})
			jobs := templateJobs("H_c15", specs, map[string]string{"eager": "on"})
			for _, ps := range psCorpus(tier) {
				jobs = append(jobs, templateJobs("H_c15", []tplSpec{ps.tplSpec}, map[string]string{"eager": "on", "ps": ps.Format, "nsFlag": "sym"})...)
			}
			// --redactFieldNames together with --redactNamespaces (the namespace test of field-name mode
			// must see the original attr.ns): every envelope and a spread of the corpus
			var both []tplSpec
			for i, sp := range specs {
				if sp.Tags["envelope"] || i%8 == 0 {
					both = append(both, sp)
				}
			}
			for _, j := range templateJobs("H_c15", both, map[string]string{"eager": "on", "nsFlag": "sym"}) {
				j.Name += "~ns"
				jobs = append(jobs, j)
			}
			return jobs
		},
		Functions: walkerFunctions, Witness: []string{"emitted"},
		Bounds: map[string]any{
			"templates": "engine/spec.go corpus (find / update / delete / insert / findAndModify / aggregate lines), field names symbolic",
			"prefix":    "configured namespace prefix symbolic: every relation to the line's namespace (equal, proper prefix, unrelated) is explored by the solver",
			"outside":   "plan-summary rewriting (byte-level; see not-covered note), Atlas Search stages",
		},
		Assumptions: []string{"pseudonym form as in C13; user field names are single non-empty components outside the operator vocabulary"},
		Trusted:     commonTrusted,
	}
	propChecks["C18"] = &PropCheck{
		ID: "C18", Title: "redact accepts exactly the well-defined jobs; rejections have no side effects",
		Jobs: func(e *Engine, tier string) []*Job {
			j := &Job{Name: "redact", Harness: "H_c18", Lines: map[string]*Template{}, NoNative: true, Params: map[string]string{
				"subcommand": "redact", "symenv": "ATLAS_PUBLIC_KEY,ATLAS_PRIVATE_KEY", "fs.kinds": "absent,file,dir", "createMayFail": "yes"}}
			j.cutSet = map[string]bool{}
			for _, c := range cliCut {
				j.cutSet[c] = true
			}
			j.snapshot = cliSnapshot
			return []*Job{j}
		},
		Post:      cliPost,
		Functions: []string{"main", "main$1", "SetRedactedString", "SetRedactNumbers", "SetRedactBooleans", "SetRedactIPs", "SetEagerRedactionPaths", "SetRedactNamespaces", "SetRedactedFieldsRegexp", "FileExists", "GenerateKey", "WriteKeyToFile", "ReadKeyFromFile", "GetStartAndEndDates", "NewAtlasClient"},
		Bounds: map[string]any{
			"flags":       "all 16 flag variables of `redact` hold arbitrary values (not only present/absent); 0 or 1 positional argument (cobra's MaximumNArgs(1) is trusted); stdin piped or not; ATLAS_PUBLIC_KEY / ATLAS_PRIVATE_KEY arbitrary; --redactFieldNames given 0 or 1 times",
			"loops":       "none (the validation chain is loop-free); processing calls (ProcessMongoLogFile*, DownloadClusterLogs, countLines) are cut into events",
			"file_system": "key path and output path: absent / file / directory; os.Create may fail",
			"rule":        "acceptance rule written from the property text (engine/props_cli.go cliRule); combinations the documentation does not settle (--encrypt with Atlas mode) are in neither set",
		},
		Assumptions: []string{"cobra / pflag deliver the parsed values into the bound variables and enforce the Args validator; --redactFieldsRegexp compiles (an invalid regexp panics at start-up: outside this check)"},
		Trusted:     append(append([]string{}, commonTrusted...), "counterexamples are replayed through the freshly built CLI binary in a scratch directory (exit status, files created, network attempt observed via the error text)"),
	}
	streamJobs := func(harness string, tier string, triples [][3]string, params map[string]string) []*Job {
		byName := map[string]tplSpec{}
		for _, t := range buildCorpus() {
			byName[t.Name] = t
		}
		for _, t := range oddCorpus("thorough") {
			byName[t.Name] = t
		}
		var jobs []*Job
		for _, tr := range triples {
			lines := map[string]*Template{}
			p := map[string]string{}
			for k, v := range params {
				p[k] = v
			}
			for i, n := range tr {
				if n == "" {
					continue
				}
				sp, ok := byName[n]
				if !ok {
					panic("no template " + n)
				}
				ln := fmt.Sprintf("L%d", i)
				tpl, err := ParseTemplate(ln, sp.Text)
				if err != nil {
					panic(err)
				}
				lines[ln] = tpl
				p["has."+ln] = "yes"
			}
			jobs = append(jobs, &Job{Name: strings.Join(tr[:], "|"), Harness: harness, Lines: lines, Params: p})
		}
		return jobs
	}
	streamTrusted := append(append([]string{}, commonTrusted...),
		"bufio.Scanner contract (bufio.ScanLines): the input is a list of lines without terminators, '\\r' stripped, a final unterminated line is yielded, a line over the limit ends the scan with ErrTooLong; gzip.NewReader yields the decompressed content or an error",
		"progress bar: opaque object with arbitrary state (CurrentNum, max) and arbitrary Add result")
	propChecks["C06"] = &PropCheck{
		ID: "C06", Title: "A log is processed as an order-preserving, line-local map",
		Jobs: func(e *Engine, tier string) []*Job {
			triples := [][3]string{
				{"find.filter/field/str", "odd:network", "update.updates.u/set/str"},
				{"odd:other-with-command", "find.filter/in/str", "odd:no-attr"},
				{"aggregate.match/field/str", "insert.documents/doc2/str", "find.filter/field/date"},
			}
			p := map[string]string{"k": "2"}
			if tier == "thorough" {
				p["k"] = "3"
			}
			jobs := streamJobs("H_c06", tier, triples, p)
			// line-locality against hidden state (H_c06_local): pairs of lines whose key paths can
			// collide when joined, compared with each line alone in a fresh process state
			pair := func(name, cmd0, cmd1 string) {
				jobs = append(jobs, localityJob(name, cmd0, cmd1, map[string]string{}))
			}
			pair("dotted|nested", `{"find":"<<COLL:coll>>","filter":{"%G.%G":%S},"$db":"<<DB:db>>"}`, `{"find":"<<COLL:coll>>","filter":{"%G":{"%G":%S}},"$db":"<<DB:db>>"}`)
			pair("same-shape", `{"find":"<<COLL:coll>>","filter":{"%G":%S},"$db":"<<DB:db>>"}`, `{"find":"<<COLL:coll>>","filter":{"%G":{"$in":[%S,%S]}},"$db":"<<DB:db>>"}`)
			if tier != "quick" {
				pair("update|aggregate", `{"update":"<<COLL:coll>>","updates":[{"q":{"%G":%S},"u":{"$set":{"%G.%G":%S}}}],"$db":"<<DB:db>>"}`, aggCmd(`{"$match":{"%G":{"%G":%S}}},{"$group":{"_id":"$%G","%G":{"$push":{"$concat":["$%G",%S]}}}}`))
			}
			return jobs
		},
		Functions: []string{"processMongoLogStream", "ProcessMongoLogFile", "ProcessMongoLogFileFromReader", "addOneToBar", "RedactMongoLog", "MarshalOrdered", "UnmarshalOrdered", "HashName"},
		Witness:   []string{"emitted"},
		Bounds: map[string]any{
			"sequence":  "k lines (quick 2, thorough 3); each position chosen by the solver among: a symbolic template line (command line / other component), blank, whitespace-only, non-JSON text (4 representatives)",
			"channels":  "processMongoLogStream directly, ProcessMongoLogFile with plain and .gz extension, ProcessMongoLogFileFromReader; progress bar nil or present in arbitrary state",
			"induction": "the pseudonym side table starts with an arbitrary extra entry and the option globals are shown unchanged after the run, so the per-line result does not depend on history (line-locality for logs of any length)",
			"outside":   "real gzip / OS pipes and files; CRLF and final-newline handling is bufio.ScanLines' documented behaviour (contract)",
		},
		Assumptions: []string{"expected output of a line = what the same line yields through RedactMongoLog+MarshalOrdered on its own (self-composition)"},
		Trusted:     streamTrusted,
	}
	propChecks["C07"] = &PropCheck{
		ID: "C07", Title: "No line content can crash or abort a run",
		Jobs: func(e *Engine, tier string) []*Job {
			var triples [][3]string
			for _, t := range oddCorpus(tier) {
				triples = append(triples, [3]string{t.Name, "", "find.filter/field/str"})
			}
			if tier != "quick" {
				for _, t := range corpusFor("quick", nil) {
					triples = append(triples, [3]string{t.Name, "", "find.filter/field/str"})
				}
			}
			jobs := streamJobs("H_c07", tier, triples, map[string]string{"fix": "ns+ip", "variant": "shape"})
			return append(jobs, streamJobs("H_c07", tier, [][3]string{{"find.filter/field/str", "", "odd:network"}, {"odd:no-attr", "", "find.filter/field/date"}}, map[string]string{"fix": "ns+ip", "variant": "garbage"})...)
		},
		Functions: []string{"processMongoLogStream", "UnmarshalOrdered", "parseValue", "RedactMongoLog", "redactCommand", "redactQueryValues", "redactPipelineStage", "redactArrayValuesWithKey", "redactScalarValue", "getOp", "traverseMapPath", "augmentOp", "MarshalOrdered"},
		Witness:   []string{"emitted"},
		Bounds: map[string]any{
			"line_under_test": "every odd-shape template (nulls, empty/nested arrays, numbers / booleans / null / arrays / documents under $date, $oid, $binary.base64, arbitrary keys of class F colliding with the operator vocabulary), thorough: plus the regular corpus",
			"neighbours":      "followed by a blank / whitespace / one of 11 malformed lines (non-JSON, legacy text format, truncated object, trailing comma, top-level array / string / number / null / boolean, garbage braces, trailing text) and by an ordinary line that must still be processed",
			"modes":           "placeholder, field-name (symbolic prefix) and selective mode chosen by the solver; progress bar nil / present",
			"too_long":        "a line over the scanner limit at position 0..2: explicit error, nothing of it passed through",
			"outside":         "encrypt mode (see C10), nesting deeper than the templates (stack exhaustion), inputs as bytes (tokenizer behind the Decoder contract)",
		},
		Assumptions: []string{"every unchecked type assertion, index, nil dereference reached on a feasible path is an implicit obligation (panic = violation)"},
		Trusted:     streamTrusted,
	}
	propChecks["C08"] = &PropCheck{
		ID: "C08", Title: "I/O failures are reported, never turned into silent truncation",
		Jobs: func(e *Engine, tier string) []*Job {
			triples := [][3]string{{"find.filter/field/str", "odd:network", ""}, {"find.filter/field/date", "odd:no-attr", ""}}
			return streamJobs("H_c08", tier, triples, map[string]string{"fix": "ns+ip"})
		},
		Functions: []string{"processMongoLogStream", "ProcessMongoLogFile", "ProcessMongoLogFileFromReader", "addOneToBar"},
		Witness:   []string{"emitted"},
		Bounds: map[string]any{
			"faults":  "3 object lines; the k-th write fails for k = 1..3 (solver's choice); the read fails after 1..3 lines; bad gzip header; open error; read error inside a gzip stream",
			"outside": "partial lines produced inside a short write by the OS; Close errors; byte-level gzip corruption (the gzip reader's error reporting is its contract)",
		},
		Assumptions: []string{"each Write call carries exactly one whole line (fmt.Fprintln performs one Write)"},
		Trusted:     streamTrusted,
	}
	cryptoTrusted := append(append([]string{}, commonTrusted...),
		"tink deterministic AEAD, keyset handle and protobuf marshalling as uninterpreted functions: Dec(k,Enc(k,m,ad),ad)=m, len(Enc)=len(m)+16, handle = function of the serialised keyset (every field the repository sets), nothing else (no authenticity)",
		"encoding/base64 on unbounded strings as uninterpreted injective function b64 with DecodeString(b64(x))=(x,nil); the real base64 code is executed on symbolic bytes for lengths 0..6 (job base64-roundtrip)")
	propChecks["C09"] = &PropCheck{
		ID: "C09", Title: "Encrypted values decrypt back to exactly the original",
		Jobs: func(e *Engine, tier string) []*Job {
			bp := map[string]string{"realBase64": "yes"}
			if tier == "thorough" {
				bp["b64max"] = "13"
			}
			jobs := []*Job{
				{Name: "redactString-decrypt", Harness: "H_c09", Lines: map[string]*Template{}, Params: map[string]string{}},
				{Name: "base64-roundtrip", Harness: "H_c09_b64", Lines: map[string]*Template{}, Params: bp},
			}
			// the round trip at line level (what reaches redactString is the literal itself, whatever
			// its class: e-mail shaped, $date / $oid / $binary payload, array element, pipeline literal)
			want := map[string]bool{"find.filter/field/str": true, "find.filter/in/date": true, "update.updates.u/set/str": true, "stage:project/lit/str": true, "insert.documents/doc2/oid": true, "find.filter/field/bin": true}
			for _, sp := range buildCorpus() {
				if want[sp.Name] {
					tpl, _ := ParseTemplate("L0", sp.Text)
					jobs = append(jobs, &Job{Name: sp.Name + "~line", Harness: "H_c10", Lines: map[string]*Template{"L0": tpl}, Params: map[string]string{"nonEmpty": "yes"}})
				}
			}
			return jobs
		},
		Functions: []string{"redactString", "Encrypt", "Decrypt", "keysetHandleFromRawKey", "ReadKeyFromFile"},
		Witness:   []string{"emitted"},
		Bounds: map[string]any{
			"plaintext": "arbitrary string of any length (SMT string), arbitrary 64-byte key",
			"path":      "redactString (the single choke point of encrypt mode) -> key file content as WriteKeyToFile stores it -> ReadKeyFromFile -> base64 decode -> Decrypt, i.e. the steps of the decrypt command",
			"lines":     "6 representative command lines run in placeholder and encrypt mode (harness of C10): every replaced string leaf decrypts to the input leaf",
			"base64":    "real stdlib code on symbolic bytes, lengths 0..6 (thorough: 0..13, which reaches the decoder's 8- and 4-character fast paths)",
			"outside":   "'a different key or an altered ciphertext fails': authenticity of AES-SIV is a cryptographic (probabilistic) claim, not decidable here; the cobra wiring of the decrypt command; key file with trailing newline",
		},
		Assumptions: []string{"round trip rests on the contract Dec(k,Enc(k,m,ad),ad)=m of the tink primitive with the same keyset and associated data; a change of key material, template, prefix type or associated data on one side only breaks syntactic equality of the keyset / ad terms and is reported"},
		Trusted:     cryptoTrusted,
	}
	propChecks["C10"] = &PropCheck{
		ID: "C10", Title: "Encryption is deterministic, injective, placeholder-equivalent and fail-closed",
		Jobs: func(e *Engine, tier string) []*Job {
			specs := corpusFor(tier, func(t tplSpec) bool {
				return tier != "quick" || strings.HasSuffix(t.Name, "/str") || strings.HasSuffix(t.Name, "/date") || strings.HasSuffix(t.Name, "/bin") || strings.HasSuffix(t.Name, "/oid") || !strings.Contains(t.Name[strings.LastIndex(t.Name, "/")+1:], "")
			})
			var jobs []*Job
			for i, sp := range specs {
				if tier == "quick" && i%3 != 0 {
					continue
				}
				tpl, _ := ParseTemplate("L0", sp.Text)
				jobs = append(jobs, &Job{Name: sp.Name, Harness: "H_c10", Lines: map[string]*Template{"L0": tpl}, Params: map[string]string{"nonEmpty": "yes"}})
			}
			// fail-closed: unusable key material injected at the API level (any length but 64)
			for _, n := range []string{"find.filter/field/str", "find.filter/in/date", "update.updates.u/set/str", "stage:project/lit/str", "insert.documents/doc2/oid"} {
				for _, sp := range buildCorpus() {
					if sp.Name == n {
						tpl, _ := ParseTemplate("L0", sp.Text)
						jobs = append(jobs, &Job{Name: sp.Name + "~badKey", Harness: "H_c10", Lines: map[string]*Template{"L0": tpl}, Params: map[string]string{"badKey": "yes", "nonEmpty": "yes"}})
					}
				}
			}
			// "across separate runs with one key file": three consecutive runs of the real redact
			// command over one symbolic file system; the key in use when processing starts must be the
			// key the file holds (so ciphertexts of run 1, which creates the file, match later runs)
			j := &Job{Name: "redact-x3", Harness: "H_c11", Lines: map[string]*Template{}, NoNative: true, Params: map[string]string{
				"subcommand": "redact", "fs.kinds": "absent,file", "fixflags": "encrypt-file-mode"}}
			j.cutSet = map[string]bool{}
			for _, c := range cliCut {
				j.cutSet[c] = true
			}
			j.snapshot = []string{"encryptionKey", "shouldEncrypt"}
			jobs = append(jobs, j)
			return jobs
		},
		Post: func(cr *checkRun) {
			keyPost(cr)
			var keep []Obligation
			for _, ob := range cr.extraOb {
				if strings.Contains(ob.ID, "key-in-use") {
					keep = append(keep, ob)
				}
			}
			cr.extraOb = keep
		},
		Functions: append(append([]string{}, walkerFunctions...), "Encrypt", "keysetHandleFromRawKey"),
		Witness:   []string{"emitted"},
		Bounds: map[string]any{
			"templates": "engine/spec.go corpus (quick: every third template), each run in placeholder and in encrypt mode on the same symbolic line",
			"failures":  "unusable key material (any length other than 64 bytes) installed through the API on 5 representative lines",
			"runs":      "three consecutive runs of the real redact command with --encrypt over one symbolic file system (key file absent or present): the key in use at the first processing call equals the decoded key file content in every run",
			"key":       "arbitrary 64 bytes",
		},
		Assumptions: []string{"non-empty literals (quick)", "injectivity follows from Dec(Enc(m))=m and the injectivity of base64 (contracts)"},
		Trusted:     cryptoTrusted,
	}
	propChecks["C11"] = &PropCheck{
		ID: "C11", Title: "Key-file lifecycle: create once, never overwrite, refuse unusable keys",
		Jobs: func(e *Engine, tier string) []*Job {
			j := &Job{Name: "redact-x3", Harness: "H_c11", Lines: map[string]*Template{}, NoNative: true, Params: map[string]string{
				"subcommand": "redact", "fs.kinds": "absent,file,dir,staterror,special", "fixflags": "encrypt-file-mode"}}
			j.cutSet = map[string]bool{}
			for _, c := range cliCut {
				j.cutSet[c] = true
			}
			j.snapshot = []string{"encryptionKey", "shouldEncrypt"}
			rw := &Job{Name: "generate-store-read", Harness: "H_c11_rw", Lines: map[string]*Template{}, Params: map[string]string{}}
			return []*Job{j, rw}
		},
		Post:      keyPost,
		Functions: []string{"main$1", "FileExists", "GenerateKey", "WriteKeyToFile", "ReadKeyFromFile", "SetEncryptionKey", "SetShouldEncrypt"},
		Bounds: map[string]any{
			"runs":        "up to 3 consecutive runs of the real redact command over the same symbolic file system (a failing run ends the sequence)",
			"key_path":    "initial state chosen by the solver: absent / regular file with arbitrary content / directory / status unreadable / device-like special file (exists, not regular, accepts writes, reads back empty); content classes (valid, valid+newline, empty, short, long, non-base64) are not enumerated: validity is the predicate 'base64-decodes to 64 bytes' over arbitrary content",
			"flags":       "file input + --outputFile + --encrypt with arbitrary key path (other flags at their defaults)",
			"outside":     "distinctness of generated keys (quality of crypto/rand), umask / ACL semantics, concurrent runs",
		},
		Assumptions: []string{"os.WriteFile either stores the bytes or fails; os.ReadFile returns the stored bytes; crypto/rand.Read fills the slice with arbitrary bytes"},
		Trusted:     append(append([]string{}, commonTrusted...), "file-system stub (engine/intr_cli.go): one symbolic entry per path, every call recorded as an event", "encoding/base64 contract b64 / unb64 (see C09: real code checked for lengths 0..6)"),
	}
	atlasTrusted := append(append([]string{}, commonTrusted...),
		"HTTP boundary (engine/intr_http.go): http.Client.Do = one round trip of the transport; digest.Transport = unauthenticated request, then one authenticated retry iff 401 + Digest challenge, password used only inside the digest hash; the fake endpoint is harness code (harness/zz_verif_h_atlas.go) executed symbolically as the base transport",
		"connstring.Parse / net.SplitHostPort / json.Unmarshal(AtlasClusterInfo) as stubs: arbitrary scheme, 1..N hosts with or without port, arbitrary standard string; io.ReadAll / io.Copy deliver the scripted body or fail after a prefix; os.CreateTemp / os.Remove recorded as events")
	atlasJobs := func(tier string) []*Job {
		p := map[string]string{"cs.mayFail": "yes", "createTempMayFail": "yes"}
		if tier == "thorough" {
			p["cs.maxHosts"] = "3"
		}
		return []*Job{
			{Name: "DownloadClusterLogs", Harness: "H_atlas", Lines: map[string]*Template{}, Params: p},
			{Name: "window", Harness: "H_c16_dates", Lines: map[string]*Template{}, Params: map[string]string{}},
		}
	}
	atlasBounds := map[string]any{
		"hosts":   "1..2 member hosts (thorough: 3), each with or without port; SRV scheme with one host",
		"server":  "every answer chosen by the solver: digest challenge or none; cluster lookup ok / 404 / transport error / unparsable body / unparsable connection string; per host ok / 500 / transport error / body cut mid-transfer; os.CreateTemp may fail",
		"inputs":  "project id, cluster name, public and private key: arbitrary URL-safe tokens; start / end: arbitrary non-negative integers; response bodies arbitrary strings",
		"outside": "TLS, DNS / SRV resolution, net/http internals, the digest library's own code (contract), real gzip payloads",
	}
	for _, id := range []string{"C16", "C17", "C20"} {
		title := map[string]string{"C16": "Atlas mode fetches exactly the requested logs and redacts each into its own file", "C17": "Raw downloaded logs never outlive the run", "C20": "The Atlas private key never leaves the process except as a digest response"}[id]
		pid := id
		propChecks[id] = &PropCheck{
			ID: id, Title: title,
			Jobs: func(e *Engine, tier string) []*Job {
				jobs := atlasJobs(tier)
				if pid == "C16" || pid == "C17" {
					jobs = append(jobs, atlasMainJob())
				}
				return jobs
			},
			Post: map[string]func(cr *checkRun){"C16": atlasLoopPost("C16"), "C17": atlasLoopPost("C17"), "C20": nil}[pid],
			Functions: []string{"DownloadClusterLogs", "getAtlasClusterInfo", "downloadClusterLogsForHost", "DeleteClusterLogs", "GetHostsFromConnectionString", "GetStartAndEndDates", "NewAtlasClient"},
			Bounds:    atlasBounds,
			OnlyObligations: map[string][]string{
				"C16": {"request", "one-file-per-host", "bytes-stored-verbatim", "only-the-returned-files-exist", "default-window", "start-before-end", "given-window", "delete-removes-all"},
				"C17": {"temp-files-left-after-failure", "no-files-returned-on-failure", "delete-removes-all", "only-the-returned-files-exist"},
				"C20": {"private-key-", "no-credentials-without-challenge", "public-key-without-challenge"},
			}[pid],
			Assumptions: []string{"the three Atlas properties share one harness (H_atlas); each check counts only the obligations of its own property"},
			Trusted:     atlasTrusted,
		}
	}
	propChecks["C01"] = &PropCheck{
		ID:    "C01",
		Title: "Sensitive literal values never survive redaction (full-redaction mode)",
		Jobs: func(e *Engine, tier string) []*Job {
			return templateJobs("H_c01", corpusFor(tier, nil), map[string]string{})
		},
		Functions: walkerFunctions,
		Witness:   []string{"emitted"},
		Bounds: map[string]any{
			"templates":           "grammar-derived command lines (see engine/spec.go): every query/update/expression/search operator context x value form; nesting <= 3 operators below the command key; arrays <= 2 elements",
			"literal_length":      "unbounded (SMT strings)",
			"field_names":         "symbolic, outside the tool's operator vocabulary (class G); collision search with vocabulary names is a separate job family",
			"name_dots":           2,
			"flags":               "redactNumbers, redactBooleans, redactIPs, redactNamespaces, replacement text: symbolic",
			"outside":             "operators absent from the grammar; lines deeper than the bound; duplicate sibling keys",
		},
		Assumptions: []string{
			"a secret is not a substring of output text that does not depend on it (constants, keys, other values, hashes)",
			"secret literals are non-empty and do not start with '$' (field-path references are outside the claim)",
		},
		Trusted: commonTrusted,
	}
}
