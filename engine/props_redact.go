package main

// Property checks over the template corpus (C01 ...).

import "fmt"

var walkerFunctions = []string{"RedactMongoLog", "redactCommand", "redactNamespace", "redactQueryValues", "redactPipelineStage",
	"redactArrayValuesWithKey", "redactArrayValues", "redactScalarValue", "redactString", "getOp", "traverseMapPath", "augmentOp",
	"isInSearchStage", "isRedactableFieldPatternInArray", "reMatchesAnyKeyInPath", "RemoveElementAfter", "RemoveElementsBeforeIncluding",
	"HashName", "IsEmail", "UnmarshalOrdered", "parseValue", "MarshalOrdered", "redactFieldNamesFromPlanSummary", "ParsePlanSummary"}

var commonTrusted = []string{
	"gosym SSA interpreter (/verif/engine) - validated on every run against the real build on the repository's fixtures and on solver models of sampled paths",
	"SMT solvers cvc5 1.0.3 and z3 5.1.0",
	"encoding/json Decoder/Marshal contract: a line is its token stream; strings are serialised by an injective function jstr; number text is passed through",
	"crypto/sha256 as uninterpreted function (functional consistency only)",
	"regexp.MatchString as uninterpreted predicate in verdict queries (definition added when a model is built)",
}

func templateJobs(harness string, specs []tplSpec, params map[string]string) []*Job {
	var jobs []*Job
	for _, s := range specs {
		tpl, err := ParseTemplate("L0", s.Text)
		if err != nil {
			panic(fmt.Sprintf("template %s: %v", s.Name, err))
		}
		jobs = append(jobs, &Job{Name: s.Name, Harness: harness, Lines: map[string]*Template{"L0": tpl}, Params: params})
	}
	return jobs
}

func init() {
	propChecks["C01"] = &PropCheck{
		ID:    "C01",
		Title: "Sensitive literal values never survive redaction (full-redaction mode)",
		Jobs: func(e *Engine, tier string) []*Job {
			return templateJobs("H_c01", corpusFor(tier, nil), map[string]string{})
		},
		Functions: walkerFunctions,
		Witness:   []string{"emitted"},
		Bounds: map[string]any{
			"templates":           "grammar-derived command lines (see engine/spec.go): every query/update/expression/search operator context x value form; nesting <= 3 operators below the command key; arrays <= 2 elements",
			"literal_length":      "unbounded (SMT strings)",
			"field_names":         "symbolic, outside the tool's operator vocabulary (class G); collision search with vocabulary names is a separate job family",
			"name_dots":           2,
			"flags":               "redactNumbers, redactBooleans, redactIPs, redactNamespaces, replacement text: symbolic",
			"outside":             "operators absent from the grammar; lines deeper than the bound; duplicate sibling keys",
		},
		Assumptions: []string{
			"a secret is not a substring of output text that does not depend on it (constants, keys, other values, hashes)",
			"secret literals are non-empty and do not start with '$' (field-path references are outside the claim)",
		},
		Trusted: commonTrusted,
	}
}
