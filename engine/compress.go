package main

// Finite-domain reasoning for string atoms that are only compared with constants (object
// keys looked up in the operator tables). The constraints "k = c", "k != c" and
// disjunctions of equalities are collected into one domain per atom; a query is decided
// without the solver when nothing else mentions the atom, and otherwise sent in a
// compact form. This is an exact reformulation of the query (no approximation).

import "sort"

type keyDom struct {
	hasPos bool
	pos    map[string]bool
	neg    map[string]bool
}

// pureIn recognises boolean combinations of equalities between one string variable and
// constants: returns the variable, the constant set and whether the term says
// "k in set" (positive) or "k not in set".
func pureIn(t *Term) (k *Term, set []string, positive bool, ok bool) {
	if t.kind != KApp {
		return nil, nil, false, false
	}
	switch t.op {
	case "=":
		a, b := t.args[0], t.args[1]
		if a.sort != SStr {
			return nil, nil, false, false
		}
		if a.kind == KVar && b.kind == KConst {
			return a, []string{b.s}, true, true
		}
		if b.kind == KVar && a.kind == KConst {
			return b, []string{a.s}, true, true
		}
	case "or":
		var kk *Term
		var all []string
		for _, x := range t.args {
			k1, s1, p1, ok1 := pureIn(x)
			if !ok1 || !p1 || (kk != nil && k1 != kk) {
				return nil, nil, false, false
			}
			kk = k1
			all = append(all, s1...)
		}
		return kk, all, true, kk != nil
	case "and":
		var kk *Term
		var all []string
		for _, x := range t.args {
			k1, s1, p1, ok1 := pureIn(x)
			if !ok1 || p1 || (kk != nil && k1 != kk) {
				return nil, nil, false, false
			}
			kk = k1
			all = append(all, s1...)
		}
		return kk, all, false, kk != nil
	case "not":
		k1, s1, p1, ok1 := pureIn(t.args[0])
		if ok1 {
			return k1, s1, !p1, true
		}
	}
	return nil, nil, false, false
}

// compressQuery rewrites the domain constraints of ts. decided=true means the result is
// known without a solver (res).
func compressQuery(ts []*Term, keepAll bool) (out []*Term, decided bool, res Result) {
	doms := map[*Term]*keyDom{}
	var order []*Term
	var rest []*Term
	for _, t := range ts {
		k, set, positive, ok := pureIn(t)
		if !ok {
			rest = append(rest, t)
			continue
		}
		d := doms[k]
		if d == nil {
			d = &keyDom{neg: map[string]bool{}}
			doms[k] = d
			order = append(order, k)
		}
		if positive {
			ns := map[string]bool{}
			for _, c := range set {
				if !d.hasPos || d.pos[c] {
					ns[c] = true
				}
			}
			d.pos = ns
			d.hasPos = true
		} else {
			for _, c := range set {
				d.neg[c] = true
			}
		}
	}
	if len(doms) == 0 {
		return ts, false, Unknown
	}
	mentioned := map[*Term]struct{}{}
	for _, t := range rest {
		for a := range t.Atoms() {
			mentioned[a] = struct{}{}
		}
	}
	out = rest
	for _, k := range order {
		d := doms[k]
		_, used := mentioned[k]
		if d.hasPos {
			var eff []string
			for c := range d.pos {
				if !d.neg[c] {
					eff = append(eff, c)
				}
			}
			if len(eff) == 0 {
				return nil, true, Unsat
			}
			if !used && !keepAll {
				continue
			}
			sort.Strings(eff)
			var alts []*Term
			for _, c := range eff {
				alts = append(alts, mkApp("=", SBool, false, k, TStr(c)))
			}
			if len(alts) == 1 {
				out = append(out, alts[0])
			} else {
				out = append(out, mkApp("or", SBool, false, alts...))
			}
			continue
		}
		if !used && !keepAll {
			continue // some string outside a finite exclusion set always exists
		}
		negs := make([]string, 0, len(d.neg))
		for c := range d.neg {
			negs = append(negs, c)
		}
		sort.Strings(negs)
		for _, c := range negs {
			out = append(out, mkApp("not", SBool, false, mkApp("=", SBool, false, k, TStr(c))))
		}
	}
	if len(out) == 0 {
		return nil, true, Sat
	}
	return out, false, Unknown
}
