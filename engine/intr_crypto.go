package main

// Boundaries of the encryption code: protobuf marshalling, tink keyset handles and the
// deterministic AEAD primitive, base64 on ropes, crypto/rand. Contracts (all reported
// in the evidence):
//
//	proto.Marshal          injective canonical encoding of the message fields the repository sets
//	insecurecleartextkeyset.Read / daead.New   succeed on a well-formed keyset unless the job injects a failure
//	Enc(h,m,ad)            len = len(m)+16;  Dec(h,Enc(h,m,ad),ad) = (m,nil); nothing else
//	b64(x)                 base64.StdEncoding on ropes: injective, DecodeString(b64(x)) = (x,nil)

import (
	"encoding/base64"
	"fmt"
	"go/types"
	"sort"
	"strings"
)

type keyHandle struct{ ks Str }

const tinkSubtle = "github.com/tink-crypto/tink-go/v2/daead/subtle"

func (m *Machine) protoCanon(v Value, t types.Type, depth int) Str {
	if depth > 16 {
		panic(abort("proto.Marshal: nesting too deep"))
	}
	switch x := v.(type) {
	case Iface:
		if x.t == nil {
			return mkStr("nil")
		}
		return m.protoCanon(x.v, x.t, depth+1)
	case *Value:
		if x == nil {
			return mkStr("nil")
		}
		pt, ok := t.Underlying().(*types.Pointer)
		if !ok {
			panic(abort("proto.Marshal: pointer of unexpected type"))
		}
		return m.protoCanon(*x, pt.Elem(), depth+1)
	case Struct:
		st := t.Underlying().(*types.Struct)
		out := mkStr("{")
		for i := 0; i < st.NumFields(); i++ {
			f := st.Field(i)
			if !f.Exported() {
				continue
			}
			out = strConcat(out, mkStr(f.Name()+"="))
			out = strConcat(out, m.protoCanon(x[i], f.Type(), depth+1))
			out = strConcat(out, mkStr(";"))
		}
		return strConcat(out, mkStr("}"))
	case Str:
		return strConcat(strConcat(mkStr("\""), x), mkStr("\""))
	case Num:
		if x.t == nil {
			return mkStr(fmt.Sprint(x.c))
		}
		return mkStrT(TUF("itoa", SStr, bvToInt(x.t)))
	case bool:
		return mkStr(fmt.Sprint(x))
	case Slice:
		if st, ok := t.Underlying().(*types.Slice); ok {
			if b, ok := st.Elem().Underlying().(*types.Basic); ok && b.Kind() == types.Uint8 {
				return strConcat(strConcat(mkStr("<"), sliceToStr(x)), mkStr(">"))
			}
			out := mkStr("[")
			for i := 0; i < x.len; i++ {
				out = strConcat(out, m.protoCanon(*x.At(i), st.Elem(), depth+1))
				out = strConcat(out, mkStr(","))
			}
			return strConcat(out, mkStr("]"))
		}
	}
	return mkStr(fmt.Sprintf("?%T", v))
}

func registerCrypto(e *Engine) {
	in := e.intrinsics
	in["google.golang.org/protobuf/proto.Marshal"] = func(m *Machine, fr *frame, a []Value) Value {
		itf := a[0].(Iface)
		s := m.protoCanon(itf, nil, 0)
		m.note("contract: proto.Marshal is an injective encoding of the message fields")
		return Tuple{Slice{rope: &s}, Iface{}}
	}
	in["github.com/tink-crypto/tink-go/v2/daead.AESSIVKeyTemplate"] = func(m *Machine, fr *frame, a []Value) Value {
		t := e.namedType("github.com/tink-crypto/tink-go/v2/proto/tink_go_proto", "KeyTemplate")
		st := zero(t).(Struct)
		stt := t.Underlying().(*types.Struct)
		st[fieldIndex(stt, "TypeUrl")] = mkStr("type.googleapis.com/google.crypto.tink.AesSivKey")
		cell := new(Value)
		*cell = st
		return cell
	}
	in["github.com/tink-crypto/tink-go/v2/keyset.NewBinaryReader"] = func(m *Machine, fr *frame, a []Value) Value {
		r := a[0].(Iface)
		o, ok := r.v.(*Opaque)
		if !ok || o.kind != "bytes.Reader" {
			panic(abort("keyset.NewBinaryReader on unmodelled reader"))
		}
		return &Opaque{kind: "keysetReader", data: sliceToStr(o.data.(Slice))}
	}
	tinkFail := func(m *Machine, what string) bool {
		// a job may inject a failure of the tink layer (fail-closed clause of C10)
		return m.job != nil && m.job.Params["tinkFails"] == what
	}
	in["github.com/tink-crypto/tink-go/v2/insecurecleartextkeyset.Read"] = func(m *Machine, fr *frame, a []Value) Value {
		o, _ := a[0].(*Opaque)
		if itf, ok := a[0].(Iface); ok {
			o, _ = itf.v.(*Opaque)
		}
		if o == nil || o.kind != "keysetReader" {
			panic(abort("insecurecleartextkeyset.Read on unmodelled reader"))
		}
		if tinkFail(m, "read") {
			return Tuple{(*Opaque)(nil), m.newError(mkStr("keyset: injected failure"))}
		}
		m.note("contract: insecurecleartextkeyset.Read returns a handle determined by the serialised keyset")
		return Tuple{&Opaque{kind: "keysetHandle", data: &keyHandle{ks: o.data.(Str)}}, Iface{}}
	}
	aessivPtr := func() types.Type { return types.NewPointer(e.namedType(tinkSubtle, "AESSIV")) }
	in["github.com/tink-crypto/tink-go/v2/daead.New"] = func(m *Machine, fr *frame, a []Value) Value {
		o, _ := a[0].(*Opaque)
		if o == nil {
			return Tuple{Iface{}, m.newError(mkStr("keyset handle is nil"))}
		}
		if tinkFail(m, "new") {
			return Tuple{Iface{}, m.newError(mkStr("daead: injected failure"))}
		}
		return Tuple{Iface{t: aessivPtr(), v: &Opaque{kind: "daead", data: o.data}}, Iface{}}
	}
	in["(*"+tinkSubtle+".AESSIV).EncryptDeterministically"] = func(m *Machine, fr *frame, a []Value) Value {
		h := a[0].(*Opaque).data.(*keyHandle)
		if tinkFail(m, "encrypt") {
			return Tuple{Slice{}, m.newError(mkStr("daead: injected encryption failure"))}
		}
		pt, ad := sliceToStr(a[1].(Slice)), sliceToStr(a[2].(Slice))
		ct := mkStrT(TUF("enc", SStr, h.ks.Term(), pt.Term(), ad.Term()))
		m.note("contract: deterministic AEAD as uninterpreted function Enc(keyset, plaintext, associated data) with Dec(k,Enc(k,m,ad),ad)=m and len(Enc)=len(m)+16")
		return Tuple{Slice{rope: &ct}, Iface{}}
	}
	in["(*"+tinkSubtle+".AESSIV).DecryptDeterministically"] = func(m *Machine, fr *frame, a []Value) Value {
		h := a[0].(*Opaque).data.(*keyHandle)
		ct, ad := sliceToStr(a[1].(Slice)), sliceToStr(a[2].(Slice))
		ctt := ct.Term()
		if ctt.kind == KApp && ctt.uf && ctt.op == "enc" {
			same := TAnd(TEq(ctt.args[0], h.ks.Term()), TEq(ctt.args[2], ad.Term()))
			if m.branch(same) {
				ptS := mkStrT(ctt.args[1])
				return Tuple{Slice{rope: &ptS}, Iface{}}
			}
			// different key or associated data: authenticity (outside the claim) - arbitrary result
		}
		if m.branch(TUF("decok", SBool, h.ks.Term(), ctt, ad.Term())) {
			ptS := mkStrT(TUF("dec", SStr, h.ks.Term(), ctt, ad.Term()))
			return Tuple{Slice{rope: &ptS}, Iface{}}
		}
		return Tuple{Slice{}, m.newError(mkStr("daead: decryption failed"))}
	}
	// base64 on ropes (level A); concrete byte slices run the real code
	stdEnc := func(m *Machine, recv Value) bool {
		// only the standard encoding object is modelled
		g := m.prog.ImportedPackage("encoding/base64").Var("StdEncoding")
		p := m.global(g).(*Value)
		return *p == recv
	}
	in["(*encoding/base64.Encoding).EncodeToString"] = func(m *Machine, fr *frame, a []Value) Value {
		sl := a[1].(Slice)
		if !stdEnc(m, a[0]) || (m.job != nil && m.job.Params["realBase64"] == "yes") {
			return realCode{}
		}
		if sl.rope == nil {
			// concrete bytes: real code; symbolic bytes (a generated key): the same UF over the byte string
			bs := bytesToStr(sl)
			if _, ok := bs.Const(); ok || sl.arr == nil {
				return realCode{}
			}
			return mkStrT(TUF("b64", SStr, bs.Term()))
		}
		if c, ok := sl.rope.Const(); ok {
			return mkStr(base64.StdEncoding.EncodeToString([]byte(c)))
		}
		return mkStrT(TUF("b64", SStr, sl.rope.Term()))
	}
	in["(*encoding/base64.Encoding).DecodeString"] = func(m *Machine, fr *frame, a []Value) Value {
		s := argStr(a[1])
		if _, ok := s.Const(); ok || s.b != nil || !stdEnc(m, a[0]) || (m.job != nil && m.job.Params["realBase64"] == "yes") {
			return realCode{} // real code on concrete text / byte-level strings
		}
		t := s.Term()
		if t.kind == KApp && t.uf && t.op == "b64" {
			x := mkStrT(t.args[0])
			return Tuple{Slice{rope: &x}, Iface{}}
		}
		if m.branch(TUF("b64ok", SBool, t)) {
			x := mkStrT(TUF("unb64", SStr, t))
			return Tuple{Slice{rope: &x}, Iface{}}
		}
		return Tuple{Slice{}, m.newError(mkStr("illegal base64 data"))}
	}
	in["crypto/rand.Read"] = func(m *Machine, fr *frame, a []Value) Value {
		sl := a[0].(Slice)
		if sl.rope != nil {
			panic(abort("rand.Read into rope"))
		}
		m.atomSeq++
		if m.job != nil && m.job.Params["randFails"] == "yes" {
			return Tuple{Num{}, m.newError(mkStr("rand: injected failure"))}
		}
		for i := 0; i < sl.len; i++ {
			*sl.At(i) = Num{t: TVar(fmt.Sprintf("rnd!%d[%d]", m.atomSeq, i), SBV8)}
		}
		m.events = append(m.events, Event{Kind: "rand.Read", Args: []Value{Num{c: int64(sl.len)}}})
		return Tuple{Num{c: int64(sl.len)}, Iface{}}
	}
}

func init() {
	extraHarness = append(extraHarness, registerCrypto)
	ufAxioms["b64"] = func(u *Term) []*Term {
		return []*Term{TEq(TUF("unb64", SStr, u), u.args[0]), TUF("b64ok", SBool, u)}
	}
	// deterministic AEAD (SIV): decryption succeeds exactly when re-encrypting the result
	// reproduces the ciphertext (the tag is a deterministic function of key, ad and plaintext)
	ufAxioms["dec"] = func(u *Term) []*Term {
		return []*Term{TImplies(TUF("decok", SBool, u.args[0], u.args[1], u.args[2]), TEq(TUF("enc", SStr, u.args[0], u, u.args[2]), u.args[1]))}
	}
	ufAxioms["enc"] = func(u *Term) []*Term {
		return []*Term{
			TEq(TLen(u), TAdd(TLen(u.args[1]), TInt(16))),
			TEq(TUF("dec", SStr, u.args[0], u, u.args[2]), u.args[1]),
			TUF("decok", SBool, u.args[0], u, u.args[2]),
		}
	}
}

var _ = sort.Strings
var _ = strings.Join
