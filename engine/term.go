package main

// Hash-consed SMT terms with a light simplifier, an SMT-LIB2 printer and a concrete
// evaluator (used for canonical witnesses and for validating predictions).

import (
	"fmt"
	"math/big"
	"sort"
	"strconv"
	"strings"
	"sync"
)

type Sort int

const (
	SBool Sort = iota
	SInt
	SStr
	SBV8
	SBV32
	SBV64
)

func (s Sort) String() string {
	switch s {
	case SBool:
		return "Bool"
	case SInt:
		return "Int"
	case SStr:
		return "String"
	case SBV8:
		return "(_ BitVec 8)"
	case SBV32:
		return "(_ BitVec 32)"
	case SBV64:
		return "(_ BitVec 64)"
	}
	return "?"
}

func bvWidth(s Sort) int {
	switch s {
	case SBV8:
		return 8
	case SBV32:
		return 32
	case SBV64:
		return 64
	}
	return 0
}

func bvSort(w int) Sort {
	switch w {
	case 8:
		return SBV8
	case 32:
		return SBV32
	case 64:
		return SBV64
	}
	panic(fmt.Sprintf("bvSort %d", w))
}

// Term kinds
const (
	KConst = iota
	KVar
	KApp
)

type Term struct {
	kind int
	sort Sort
	op   string  // for KApp: SMT operator or UF name; for KVar: name
	args []*Term // KApp
	b    bool    // const bool
	i    int64   // const int / bv (bit pattern)
	s    string  // const string (raw bytes, each byte one SMT char)
	id   int
	uf   bool // op is an uninterpreted function (needs declaration)
	atoms map[*Term]struct{} // lazily computed set of vars
}

var (
	termMu    sync.Mutex
	termTable = map[string]*Term{}
	termSeq   int
)

func intern(key string, mk func() *Term) *Term {
	termMu.Lock()
	defer termMu.Unlock()
	if t, ok := termTable[key]; ok {
		return t
	}
	t := mk()
	termSeq++
	t.id = termSeq
	termTable[key] = t
	return t
}

func TBool(b bool) *Term {
	if b {
		return tTrue
	}
	return tFalse
}

var tTrue = intern("cb1", func() *Term { return &Term{kind: KConst, sort: SBool, b: true} })
var tFalse = intern("cb0", func() *Term { return &Term{kind: KConst, sort: SBool, b: false} })

func TInt(i int64) *Term {
	return intern("ci"+strconv.FormatInt(i, 10), func() *Term { return &Term{kind: KConst, sort: SInt, i: i} })
}

func TBV(w int, v uint64) *Term {
	if w < 64 {
		v &= (1 << uint(w)) - 1
	}
	return intern(fmt.Sprintf("cv%d:%d", w, v), func() *Term { return &Term{kind: KConst, sort: bvSort(w), i: int64(v)} })
}

func TStr(s string) *Term {
	return intern("cs"+s, func() *Term { return &Term{kind: KConst, sort: SStr, s: s} })
}

func TVar(name string, s Sort) *Term {
	return intern(fmt.Sprintf("v%d:%s", s, name), func() *Term { return &Term{kind: KVar, sort: s, op: name} })
}

func mkApp(op string, s Sort, uf bool, args ...*Term) *Term {
	var sb strings.Builder
	sb.WriteString("a")
	sb.WriteString(op)
	sb.WriteByte('|')
	sb.WriteString(strconv.Itoa(int(s)))
	for _, a := range args {
		sb.WriteByte(',')
		sb.WriteString(strconv.Itoa(a.id))
	}
	as := append([]*Term(nil), args...)
	return intern(sb.String(), func() *Term { return &Term{kind: KApp, sort: s, op: op, args: as, uf: uf} })
}

func (t *Term) IsConst() bool { return t.kind == KConst }

// Atoms returns the set of variables occurring in t.
func (t *Term) Atoms() map[*Term]struct{} {
	if t.atoms != nil {
		return t.atoms
	}
	m := map[*Term]struct{}{}
	switch t.kind {
	case KVar:
		m[t] = struct{}{}
	case KApp:
		for _, a := range t.args {
			for k := range a.Atoms() {
				m[k] = struct{}{}
			}
		}
	}
	t.atoms = m
	return m
}

func (t *Term) Mentions(v *Term) bool {
	_, ok := t.Atoms()[v]
	return ok
}

// ---------- constructors with simplification ----------

func TNot(a *Term) *Term {
	if a.kind == KConst {
		return TBool(!a.b)
	}
	if a.kind == KApp && a.op == "not" {
		return a.args[0]
	}
	return mkApp("not", SBool, false, a)
}

func TAnd(as ...*Term) *Term {
	var out []*Term
	seen := map[*Term]bool{}
	for _, a := range as {
		if a.kind == KConst {
			if !a.b {
				return tFalse
			}
			continue
		}
		if a.kind == KApp && a.op == "and" {
			for _, x := range a.args {
				if !seen[x] {
					seen[x] = true
					out = append(out, x)
				}
			}
			continue
		}
		if !seen[a] {
			seen[a] = true
			out = append(out, a)
		}
	}
	for _, a := range out {
		if seen[TNot(a)] {
			return tFalse
		}
	}
	switch len(out) {
	case 0:
		return tTrue
	case 1:
		return out[0]
	}
	return mkApp("and", SBool, false, out...)
}

func TOr(as ...*Term) *Term {
	var out []*Term
	seen := map[*Term]bool{}
	for _, a := range as {
		if a.kind == KConst {
			if a.b {
				return tTrue
			}
			continue
		}
		if a.kind == KApp && a.op == "or" {
			for _, x := range a.args {
				if !seen[x] {
					seen[x] = true
					out = append(out, x)
				}
			}
			continue
		}
		if !seen[a] {
			seen[a] = true
			out = append(out, a)
		}
	}
	for _, a := range out {
		if seen[TNot(a)] {
			return tTrue
		}
	}
	switch len(out) {
	case 0:
		return tFalse
	case 1:
		return out[0]
	}
	return mkApp("or", SBool, false, out...)
}

func TImplies(a, b *Term) *Term { return TOr(TNot(a), b) }

func TIte(c, a, b *Term) *Term {
	if c.kind == KConst {
		if c.b {
			return a
		}
		return b
	}
	if a == b {
		return a
	}
	if a.sort == SBool {
		if a.kind == KConst && b.kind == KConst {
			if a.b {
				return c
			}
			return TNot(c)
		}
		if a.kind == KConst {
			if a.b {
				return TOr(c, b)
			}
			return TAnd(TNot(c), b)
		}
		if b.kind == KConst {
			if b.b {
				return TOr(TNot(c), a)
			}
			return TAnd(c, a)
		}
	}
	return mkApp("ite", a.sort, false, c, a, b)
}

func TEq(a, b *Term) *Term {
	if a == b {
		return tTrue
	}
	if a.sort != b.sort {
		panic(fmt.Sprintf("TEq sort mismatch %v %v: %s / %s", a.sort, b.sort, a.SMT(), b.SMT()))
	}
	if a.kind == KConst && b.kind == KConst {
		switch a.sort {
		case SBool:
			return TBool(a.b == b.b)
		case SStr:
			return TBool(a.s == b.s)
		default:
			return TBool(a.i == b.i)
		}
	}
	if a.sort == SBool {
		if a.kind == KConst {
			if a.b {
				return b
			}
			return TNot(b)
		}
		if b.kind == KConst {
			if b.b {
				return a
			}
			return TNot(a)
		}
	}
	if a.sort == SStr {
		if r, ok := strEqSimplify(a, b); ok {
			return r
		}
	}
	if a.id > b.id {
		a, b = b, a
	}
	return mkApp("=", SBool, false, a, b)
}

// strEqSimplify decides some equalities between concatenations syntactically.
func strEqSimplify(a, b *Term) (*Term, bool) {
	// const vs concat with const prefix/suffix mismatch
	pa, pb := strParts(a), strParts(b)
	// strip common const prefix
	for len(pa) > 0 && len(pb) > 0 {
		x, y := pa[0], pb[0]
		if x == y {
			pa, pb = pa[1:], pb[1:]
			continue
		}
		if x.kind == KConst && y.kind == KConst {
			n := len(x.s)
			if len(y.s) < n {
				n = len(y.s)
			}
			if x.s[:n] != y.s[:n] {
				return tFalse, true
			}
			if len(x.s) == n {
				pa = pa[1:]
			} else {
				pa = append([]*Term{TStr(x.s[n:])}, pa[1:]...)
			}
			if len(y.s) == n {
				pb = pb[1:]
			} else {
				pb = append([]*Term{TStr(y.s[n:])}, pb[1:]...)
			}
			continue
		}
		break
	}
	for len(pa) > 0 && len(pb) > 0 {
		x, y := pa[len(pa)-1], pb[len(pb)-1]
		if x == y {
			pa, pb = pa[:len(pa)-1], pb[:len(pb)-1]
			continue
		}
		if x.kind == KConst && y.kind == KConst {
			n := len(x.s)
			if len(y.s) < n {
				n = len(y.s)
			}
			if x.s[len(x.s)-n:] != y.s[len(y.s)-n:] {
				return tFalse, true
			}
			if len(x.s) == n {
				pa = pa[:len(pa)-1]
			} else {
				pa = append(append([]*Term{}, pa[:len(pa)-1]...), TStr(x.s[:len(x.s)-n]))
			}
			if len(y.s) == n {
				pb = pb[:len(pb)-1]
			} else {
				pb = append(append([]*Term{}, pb[:len(pb)-1]...), TStr(y.s[:len(y.s)-n]))
			}
			continue
		}
		break
	}
	if len(pa) == 0 && len(pb) == 0 {
		return tTrue, true
	}
	return nil, false
}

func strParts(a *Term) []*Term {
	if a.kind == KApp && a.op == "str.++" {
		return append([]*Term(nil), a.args...)
	}
	if a.kind == KConst && a.s == "" {
		return nil
	}
	return []*Term{a}
}

func TConcat(as ...*Term) *Term {
	var out []*Term
	for _, a := range as {
		for _, p := range strParts(a) {
			if p.kind == KConst && len(out) > 0 && out[len(out)-1].kind == KConst {
				out[len(out)-1] = TStr(out[len(out)-1].s + p.s)
			} else {
				out = append(out, p)
			}
		}
	}
	switch len(out) {
	case 0:
		return TStr("")
	case 1:
		return out[0]
	}
	return mkApp("str.++", SStr, false, out...)
}

func TLen(a *Term) *Term {
	if a.kind == KConst {
		return TInt(int64(len(a.s)))
	}
	if a.kind == KApp && a.op == "str.++" {
		var sum []*Term
		for _, p := range a.args {
			sum = append(sum, TLen(p))
		}
		return TAdd(sum...)
	}
	// a byte rendered as a one-character string
	if a.kind == KApp && a.op == "str.from_code" && a.args[0].kind == KApp && a.args[0].op == "bv2nat" && a.args[0].args[0].sort == SBV8 {
		return TInt(1)
	}
	return mkApp("str.len", SInt, false, a)
}

func TAdd(as ...*Term) *Term {
	var c int64
	var out []*Term
	for _, a := range as {
		if a.kind == KConst {
			c += a.i
		} else if a.kind == KApp && a.op == "+" {
			for _, x := range a.args {
				if x.kind == KConst {
					c += x.i
				} else {
					out = append(out, x)
				}
			}
		} else {
			out = append(out, a)
		}
	}
	if c != 0 || len(out) == 0 {
		out = append(out, TInt(c))
	}
	if len(out) == 1 {
		return out[0]
	}
	return mkApp("+", SInt, false, out...)
}

func TSub(a, b *Term) *Term {
	if b.kind == KConst {
		return TAdd(a, TInt(-b.i))
	}
	if a.kind == KConst && b.kind == KConst {
		return TInt(a.i - b.i)
	}
	return mkApp("-", SInt, false, a, b)
}

func TMul(a, b *Term) *Term {
	if a.kind == KConst && b.kind == KConst {
		return TInt(a.i * b.i)
	}
	return mkApp("*", SInt, false, a, b)
}

func TIntOp(op string, a, b *Term) *Term {
	if a.kind == KConst && b.kind == KConst {
		switch op {
		case "div":
			if b.i != 0 {
				q := a.i / b.i
				if a.i%b.i != 0 && (a.i%b.i < 0) {
					if b.i > 0 {
						q--
					} else {
						q++
					}
				}
				return TInt(q)
			}
		case "mod":
			if b.i != 0 {
				m := a.i % b.i
				if m < 0 {
					if b.i > 0 {
						m += b.i
					} else {
						m -= b.i
					}
				}
				return TInt(m)
			}
		}
	}
	return mkApp(op, SInt, false, a, b)
}

func TCmp(op string, a, b *Term) *Term { // op in < <= > >=
	if a.kind == KConst && b.kind == KConst {
		switch op {
		case "<":
			return TBool(a.i < b.i)
		case "<=":
			return TBool(a.i <= b.i)
		case ">":
			return TBool(a.i > b.i)
		case ">=":
			return TBool(a.i >= b.i)
		}
	}
	// len(x) >= 0 etc.
	if lo, ok := intLowerBound(a); ok && b.kind == KConst {
		if (op == ">=" && lo >= b.i) || (op == ">" && lo > b.i) {
			return tTrue
		}
		if (op == "<" && lo >= b.i) || (op == "<=" && lo > b.i) {
			return tFalse
		}
	}
	return mkApp(op, SBool, false, a, b)
}

func intLowerBound(a *Term) (int64, bool) {
	switch {
	case a.kind == KConst:
		return a.i, true
	case a.kind == KApp && a.op == "str.len":
		return 0, true
	case a.kind == KApp && a.op == "+":
		var s int64
		for _, x := range a.args {
			l, ok := intLowerBound(x)
			if !ok {
				return 0, false
			}
			s += l
		}
		return s, true
	}
	return 0, false
}

func TStrAt(s, i *Term) *Term { // 1-char string
	if s.kind == KConst && i.kind == KConst {
		if i.i >= 0 && i.i < int64(len(s.s)) {
			return TStr(s.s[i.i : i.i+1])
		}
		return TStr("")
	}
	if i.kind == KConst && i.i >= 0 {
		// index into leading constant part of a concat
		if s.kind == KApp && s.op == "str.++" && s.args[0].kind == KConst && int64(len(s.args[0].s)) > i.i {
			return TStr(s.args[0].s[i.i : i.i+1])
		}
	}
	return mkApp("str.at", SStr, false, s, i)
}

func TStrCode(s *Term) *Term { // code of 1-char string, -1 otherwise
	if s.kind == KConst {
		if len(s.s) == 1 {
			return TInt(int64(s.s[0]))
		}
		return TInt(-1)
	}
	return mkApp("str.to_code", SInt, false, s)
}

func TStrFromCode(i *Term) *Term {
	if i.kind == KConst && i.i >= 0 && i.i < 256 {
		return TStr(string([]byte{byte(i.i)}))
	}
	return mkApp("str.from_code", SStr, false, i)
}

func TSubstr(s, off, n *Term) *Term {
	if s.kind == KConst && off.kind == KConst && n.kind == KConst {
		o, l := off.i, n.i
		if o < 0 || o > int64(len(s.s)) || l <= 0 {
			return TStr("")
		}
		if o+l > int64(len(s.s)) {
			l = int64(len(s.s)) - o
		}
		return TStr(s.s[o : o+l])
	}
	if off.kind == KConst && off.i == 0 && n == TLen(s) {
		return s
	}
	return mkApp("str.substr", SStr, false, s, off, n)
}

func TPrefixOf(p, s *Term) *Term { // p is a prefix of s
	if p.kind == KConst && p.s == "" {
		return tTrue
	}
	if p == s {
		return tTrue
	}
	if p.kind == KConst && s.kind == KConst {
		return TBool(strings.HasPrefix(s.s, p.s))
	}
	sp := strParts(s)
	pp := strParts(p)
	for len(sp) > 0 && len(pp) > 0 && sp[0] == pp[0] {
		sp, pp = sp[1:], pp[1:]
	}
	if len(pp) == 0 {
		return tTrue
	}
	if len(pp) == 1 && pp[0].kind == KConst && len(sp) > 0 && sp[0].kind == KConst {
		a, b := pp[0].s, sp[0].s
		if len(b) >= len(a) {
			return TBool(strings.HasPrefix(b, a))
		}
		if !strings.HasPrefix(a, b) {
			return tFalse
		}
	}
	return mkApp("str.prefixof", SBool, false, TConcat(pp...), TConcat(sp...))
}

func TSuffixOf(p, s *Term) *Term {
	if p.kind == KConst && s.kind == KConst {
		return TBool(strings.HasSuffix(s.s, p.s))
	}
	if p.kind == KConst && p.s == "" {
		return tTrue
	}
	return mkApp("str.suffixof", SBool, false, p, s)
}

func TContains(s, sub *Term) *Term { // s contains sub
	if sub.kind == KConst && sub.s == "" {
		return tTrue
	}
	if s == sub {
		return tTrue
	}
	if s.kind == KConst && sub.kind == KConst {
		return TBool(strings.Contains(s.s, sub.s))
	}
	if s.kind == KApp && s.op == "str.++" {
		for _, p := range s.args {
			if p == sub {
				return tTrue
			}
		}
	}
	return mkApp("str.contains", SBool, false, s, sub)
}

func TIndexOf(s, sub, from *Term) *Term {
	if s.kind == KConst && sub.kind == KConst && from.kind == KConst && from.i >= 0 && from.i <= int64(len(s.s)) {
		r := strings.Index(s.s[from.i:], sub.s)
		if r < 0 {
			return TInt(-1)
		}
		return TInt(int64(r) + from.i)
	}
	return mkApp("str.indexof", SInt, false, s, sub, from)
}

func TReplaceAll(s, from, to *Term) *Term {
	if s.kind == KConst && from.kind == KConst && to.kind == KConst {
		return TStr(strings.ReplaceAll(s.s, from.s, to.s))
	}
	return mkApp("str.replace_all", SStr, false, s, from, to)
}

// TInRe: membership in a regular language given as SMT-LIB RegLan text.
func TInRe(s *Term, re string) *Term {
	return mkApp("in_re:"+re, SBool, false, s)
}

func TUF(name string, s Sort, args ...*Term) *Term {
	return mkApp(name, s, true, args...)
}

// BV ops
func TBVOp(op string, a, b *Term) *Term {
	w := bvWidth(a.sort)
	if a.kind == KConst && b.kind == KConst {
		x, y := uint64(a.i), uint64(b.i)
		var r uint64
		ok := true
		switch op {
		case "bvadd":
			r = x + y
		case "bvsub":
			r = x - y
		case "bvmul":
			r = x * y
		case "bvand":
			r = x & y
		case "bvor":
			r = x | y
		case "bvxor":
			r = x ^ y
		case "bvshl":
			if y >= uint64(w) {
				r = 0
			} else {
				r = x << y
			}
		case "bvlshr":
			if y >= uint64(w) {
				r = 0
			} else {
				r = x >> y
			}
		default:
			ok = false
		}
		if ok {
			return TBV(w, r)
		}
	}
	if op == "bvor" || op == "bvadd" || op == "bvxor" {
		if a.kind == KConst && a.i == 0 {
			return b
		}
		if b.kind == KConst && b.i == 0 {
			return a
		}
	}
	if op == "bvshl" || op == "bvlshr" {
		if b.kind == KConst && b.i == 0 {
			return a
		}
	}
	if op == "bvand" {
		if (a.kind == KConst && a.i == 0) || (b.kind == KConst && b.i == 0) {
			return TBV(w, 0)
		}
	}
	return mkApp(op, a.sort, false, a, b)
}

func TBVCmp(op string, a, b *Term) *Term { // bvult bvule bvslt bvsle ...
	if a.kind == KConst && b.kind == KConst {
		x, y := uint64(a.i), uint64(b.i)
		w := bvWidth(a.sort)
		sx, sy := signExt(x, w), signExt(y, w)
		switch op {
		case "bvult":
			return TBool(x < y)
		case "bvule":
			return TBool(x <= y)
		case "bvugt":
			return TBool(x > y)
		case "bvuge":
			return TBool(x >= y)
		case "bvslt":
			return TBool(sx < sy)
		case "bvsle":
			return TBool(sx <= sy)
		case "bvsgt":
			return TBool(sx > sy)
		case "bvsge":
			return TBool(sx >= sy)
		}
	}
	return mkApp(op, SBool, false, a, b)
}

func signExt(x uint64, w int) int64 {
	if w == 64 {
		return int64(x)
	}
	if x&(1<<uint(w-1)) != 0 {
		return int64(x | ^((1 << uint(w)) - 1))
	}
	return int64(x)
}

func TBVExt(a *Term, w int, signed bool) *Term { // extend or truncate to width w
	aw := bvWidth(a.sort)
	if aw == w {
		return a
	}
	if a.kind == KConst {
		if aw < w && signed {
			return TBV(w, uint64(signExt(uint64(a.i), aw)))
		}
		return TBV(w, uint64(a.i))
	}
	if aw > w {
		return mkApp(fmt.Sprintf("(_ extract %d 0)", w-1), bvSort(w), false, a)
	}
	if signed {
		return mkApp(fmt.Sprintf("(_ sign_extend %d)", w-aw), bvSort(w), false, a)
	}
	return mkApp(fmt.Sprintf("(_ zero_extend %d)", w-aw), bvSort(w), false, a)
}

func TBV2Int(a *Term) *Term {
	if a.kind == KConst {
		return TInt(a.i)
	}
	return mkApp("bv2nat", SInt, false, a)
}

func TInt2BV(a *Term, w int) *Term {
	if a.kind == KConst {
		return TBV(w, uint64(a.i))
	}
	if a.kind == KApp && a.op == "bv2nat" && bvWidth(a.args[0].sort) == w {
		return a.args[0]
	}
	return mkApp(fmt.Sprintf("(_ int2bv %d)", w), bvSort(w), false, a)
}

// ---------- printing ----------

func smtStr(s string) string {
	var sb strings.Builder
	sb.WriteByte('"')
	for i := 0; i < len(s); i++ {
		c := s[i]
		switch {
		case c == '"':
			sb.WriteString(`""`)
		case c == '\\':
			sb.WriteString(`\u{5c}`)
		case c >= 0x20 && c < 0x7f:
			sb.WriteByte(c)
		default:
			fmt.Fprintf(&sb, `\u{%x}`, c)
		}
	}
	sb.WriteByte('"')
	return sb.String()
}

func smtName(n string) string {
	return "|" + strings.NewReplacer("|", "_", "\\", "_").Replace(n) + "|"
}

func (t *Term) SMT() string {
	var sb strings.Builder
	t.write(&sb)
	return sb.String()
}

func (t *Term) write(sb *strings.Builder) {
	switch t.kind {
	case KConst:
		switch t.sort {
		case SBool:
			if t.b {
				sb.WriteString("true")
			} else {
				sb.WriteString("false")
			}
		case SInt:
			if t.i < 0 {
				if t.i == -9223372036854775808 {
					sb.WriteString("(- 9223372036854775808)")
				} else {
					fmt.Fprintf(sb, "(- %d)", -t.i)
				}
			} else {
				fmt.Fprintf(sb, "%d", t.i)
			}
		case SStr:
			sb.WriteString(smtStr(t.s))
		default:
			w := bvWidth(t.sort)
			fmt.Fprintf(sb, "(_ bv%d %d)", uint64(t.i), w)
		}
	case KVar:
		sb.WriteString(smtName(t.op))
	case KApp:
		if strings.HasPrefix(t.op, "in_re:") {
			sb.WriteString("(str.in_re ")
			t.args[0].write(sb)
			sb.WriteByte(' ')
			sb.WriteString(t.op[6:])
			sb.WriteByte(')')
			return
		}
		sb.WriteByte('(')
		if t.uf {
			sb.WriteString(smtName(t.op))
		} else {
			sb.WriteString(t.op)
		}
		for _, a := range t.args {
			sb.WriteByte(' ')
			a.write(sb)
		}
		sb.WriteByte(')')
	}
}

// collectDecls returns declarations for all vars and UFs in ts (deterministic order).
func collectDecls(ts []*Term) []string {
	vars := map[string]string{}
	seen := map[*Term]bool{}
	var walk func(t *Term)
	walk = func(t *Term) {
		if seen[t] {
			return
		}
		seen[t] = true
		switch t.kind {
		case KVar:
			vars[smtName(t.op)] = fmt.Sprintf("(declare-fun %s () %s)", smtName(t.op), t.sort)
		case KApp:
			if t.uf {
				var as []string
				for _, a := range t.args {
					as = append(as, a.sort.String())
				}
				vars[smtName(t.op)] = fmt.Sprintf("(declare-fun %s (%s) %s)", smtName(t.op), strings.Join(as, " "), t.sort)
			}
			for _, a := range t.args {
				walk(a)
			}
		}
	}
	for _, t := range ts {
		walk(t)
	}
	keys := make([]string, 0, len(vars))
	for k := range vars {
		keys = append(keys, k)
	}
	sort.Strings(keys)
	out := make([]string, 0, len(keys))
	for _, k := range keys {
		out = append(out, vars[k])
	}
	return out
}

// subterms collects all application terms satisfying pred.
func subterms(ts []*Term, pred func(*Term) bool) []*Term {
	seen := map[*Term]bool{}
	var out []*Term
	var walk func(t *Term)
	walk = func(t *Term) {
		if seen[t] {
			return
		}
		seen[t] = true
		if pred(t) {
			out = append(out, t)
		}
		for _, a := range t.args {
			walk(a)
		}
	}
	for _, t := range ts {
		walk(t)
	}
	return out
}

// ---------- evaluation under a model ----------

type Model struct {
	Str  map[string]string
	Int  map[string]int64
	Bool map[string]bool
	UF   func(name string, args []any) (any, bool) // interpretation of UFs (nil: unsupported)
}

type evalErr struct{ msg string }

func (m *Model) Eval(t *Term) (res any, err error) {
	defer func() {
		if r := recover(); r != nil {
			if e, ok := r.(evalErr); ok {
				err = fmt.Errorf("%s", e.msg)
				return
			}
			panic(r)
		}
	}()
	return m.eval(t), nil
}

func (m *Model) eval(t *Term) any {
	switch t.kind {
	case KConst:
		switch t.sort {
		case SBool:
			return t.b
		case SStr:
			return t.s
		case SInt:
			return t.i
		default:
			return uint64(t.i)
		}
	case KVar:
		switch t.sort {
		case SBool:
			return m.Bool[t.op]
		case SStr:
			return m.Str[t.op]
		case SInt:
			return m.Int[t.op]
		default:
			return uint64(m.Int[t.op])
		}
	}
	if t.uf {
		if m.UF != nil {
			var as []any
			for _, a := range t.args {
				as = append(as, m.eval(a))
			}
			if r, ok := m.UF(t.op, as); ok {
				return r
			}
		}
		panic(evalErr{"uninterpreted function " + t.op})
	}
	if strings.HasPrefix(t.op, "in_re:") {
		if re, ok := regLanNative[t.op[6:]]; ok {
			return re.MatchString(m.eval(t.args[0]).(string))
		}
		panic(evalErr{"in_re not evaluable"})
	}
	switch t.op {
	case "not":
		return !m.eval(t.args[0]).(bool)
	case "and":
		for _, a := range t.args {
			if !m.eval(a).(bool) {
				return false
			}
		}
		return true
	case "or":
		for _, a := range t.args {
			if m.eval(a).(bool) {
				return true
			}
		}
		return false
	case "ite":
		if m.eval(t.args[0]).(bool) {
			return m.eval(t.args[1])
		}
		return m.eval(t.args[2])
	case "=":
		return m.eval(t.args[0]) == m.eval(t.args[1])
	case "str.++":
		var sb strings.Builder
		for _, a := range t.args {
			sb.WriteString(m.eval(a).(string))
		}
		return sb.String()
	case "str.len":
		return int64(len(m.eval(t.args[0]).(string)))
	case "+":
		var s int64
		for _, a := range t.args {
			s += m.eval(a).(int64)
		}
		return s
	case "-":
		return m.eval(t.args[0]).(int64) - m.eval(t.args[1]).(int64)
	case "*":
		return m.eval(t.args[0]).(int64) * m.eval(t.args[1]).(int64)
	case "<":
		return m.eval(t.args[0]).(int64) < m.eval(t.args[1]).(int64)
	case "<=":
		return m.eval(t.args[0]).(int64) <= m.eval(t.args[1]).(int64)
	case ">":
		return m.eval(t.args[0]).(int64) > m.eval(t.args[1]).(int64)
	case ">=":
		return m.eval(t.args[0]).(int64) >= m.eval(t.args[1]).(int64)
	case "str.at":
		s := m.eval(t.args[0]).(string)
		i := m.eval(t.args[1]).(int64)
		if i >= 0 && i < int64(len(s)) {
			return s[i : i+1]
		}
		return ""
	case "str.to_code":
		s := m.eval(t.args[0]).(string)
		if len(s) == 1 {
			return int64(s[0])
		}
		return int64(-1)
	case "str.from_code":
		i := m.eval(t.args[0]).(int64)
		if i >= 0 && i < 256 {
			return string([]byte{byte(i)})
		}
		return ""
	case "str.substr":
		s := m.eval(t.args[0]).(string)
		o := m.eval(t.args[1]).(int64)
		l := m.eval(t.args[2]).(int64)
		if o < 0 || o > int64(len(s)) || l <= 0 {
			return ""
		}
		if o+l > int64(len(s)) {
			l = int64(len(s)) - o
		}
		return s[o : o+l]
	case "str.prefixof":
		return strings.HasPrefix(m.eval(t.args[1]).(string), m.eval(t.args[0]).(string))
	case "str.suffixof":
		return strings.HasSuffix(m.eval(t.args[1]).(string), m.eval(t.args[0]).(string))
	case "str.contains":
		return strings.Contains(m.eval(t.args[0]).(string), m.eval(t.args[1]).(string))
	case "str.indexof":
		s := m.eval(t.args[0]).(string)
		sub := m.eval(t.args[1]).(string)
		from := m.eval(t.args[2]).(int64)
		if from < 0 || from > int64(len(s)) {
			return int64(-1)
		}
		r := strings.Index(s[from:], sub)
		if r < 0 {
			return int64(-1)
		}
		return int64(r) + from
	case "str.replace_all":
		return strings.ReplaceAll(m.eval(t.args[0]).(string), m.eval(t.args[1]).(string), m.eval(t.args[2]).(string))
	}
	panic(evalErr{"eval: unsupported op " + t.op})
}

var _ = big.NewInt
