package main

// C18: `redact` accepts exactly the well-defined jobs; rejections have no side effects.
// The real main() and its Run closure are executed with every flag value, the number of
// positional arguments, the stdin mode and the environment symbolic; processing calls are
// cut into events. The acceptance rule below is written from the property text / README.

import (
	"fmt"
	"os"
	"os/exec"
	"path/filepath"
	"sort"
	"strings"
)

var cliCut = []string{"ProcessMongoLogFile", "ProcessMongoLogFileFromReader", "countLines",
	"(*AtlasClient).DownloadClusterLogs", "(*AtlasClient).DeleteClusterLogs"}

var cliSnapshot = []string{"redactedString", "redactNumbers", "redactBooleans", "redactIPs", "redactNamespaces", "shouldEncrypt", "atlasLogStartDate", "atlasLogEndDate"}

type cliSwitches struct {
	file, stdin, out, enc, rx, fn, proj, clus, pubF, privF, start, end, pubE, privE *Term
}

func strSet(inputs map[string]Value, name string) *Term {
	v, ok := inputs[name]
	if !ok {
		return tFalse
	}
	return TNot(TEq(v.(Str).Term(), TStr("")))
}

func intSet(inputs map[string]Value, name string) *Term {
	v, ok := inputs[name]
	if !ok {
		return tFalse
	}
	n := v.(Num)
	if n.t == nil {
		return TBool(n.c != 0)
	}
	return TNot(TEq(n.t, TInt(0)))
}

func switchesOf(p *PathResult) cliSwitches {
	in := p.Inputs
	s := cliSwitches{}
	s.file = TBool(in["nargs"].(Num).c == 1)
	if v, ok := in["stdinPiped"]; ok {
		s.stdin = boolTerm(v)
	} else {
		s.stdin = TVar("stdinPiped", SBool)
	}
	s.out = strSet(in, "flag.outputFile")
	if v, ok := in["flag.encrypt"]; ok {
		s.enc = boolTerm(v)
	} else {
		s.enc = tFalse
	}
	s.rx = strSet(in, "flag.redactFieldsRegexp")
	s.fn = tFalse
	if v, ok := in["flagcount.redactFieldNames"]; ok {
		s.fn = TBool(v.(Num).c > 0)
	}
	s.proj = strSet(in, "flag.atlasProjectId")
	s.clus = strSet(in, "flag.atlasClusterName")
	s.pubF = strSet(in, "flag.atlasPublicKey")
	s.privF = strSet(in, "flag.atlasPrivateKey")
	s.start = intSet(in, "flag.atlasLogStartDate")
	s.end = intSet(in, "flag.atlasLogEndDate")
	s.pubE = TNot(TEq(TVar("env.ATLAS_PUBLIC_KEY", SStr), TStr("")))
	s.privE = TNot(TEq(TVar("env.ATLAS_PRIVATE_KEY", SStr), TStr("")))
	return s
}

func tXor(a, b *Term) *Term { return TOr(TAnd(a, TNot(b)), TAnd(TNot(a), b)) }

// exactlyOne of three
func exactlyOne(a, b, c *Term) *Term {
	return TOr(TAnd(a, TNot(b), TNot(c)), TAnd(TNot(a), b, TNot(c)), TAnd(TNot(a), TNot(b), c))
}

// acceptance rule (documentation): returns must_reject, must_accept
func cliRule(s cliSwitches) (*Term, *Term) {
	atlas := TOr(s.proj, s.clus, s.start, s.end, s.pubF, s.privF)
	keys := TAnd(TOr(s.pubF, s.pubE), TOr(s.privF, s.privE))
	mustReject := TOr(
		TAnd(s.rx, s.fn),
		tXor(s.start, s.end),
		tXor(s.proj, s.clus),
		TNot(exactlyOne(s.file, s.stdin, atlas)),
		TAnd(atlas, TNot(TAnd(s.proj, s.clus, s.out, keys))),
		TAnd(s.enc, TNot(atlas), TNot(TAnd(s.file, s.out, TNot(s.stdin)))),
	)
	mustAccept := TAnd(TNot(mustReject), TNot(TAnd(s.enc, atlas)))
	return mustReject, mustAccept
}

func isProcessing(kind string) bool {
	return kind == "call:ProcessMongoLogFile" || kind == "call:ProcessMongoLogFileFromReader" || kind == "call:(*AtlasClient).DownloadClusterLogs"
}

func isSideEffect(kind string) bool {
	return kind == "create" || kind == "writefile" || kind == "rand.Read" || kind == "createtemp" || kind == "remove" || isProcessing(kind)
}

func cliPost(cr *checkRun) {
	solver := NewSolver()
	defer solver.Close()
	add := func(ob Obligation) { cr.extraOb = append(cr.extraOb, ob) }
	site := map[string]bool{}
	for ji, jr := range cr.results {
		job := cr.jobs[ji]
		for _, p := range jr.Paths {
			if p.End != "done" && p.End != "exit" {
				continue
			}
			if _, ok := p.Inputs["nargs"]; !ok {
				continue
			}
			sw := switchesOf(p)
			mustReject, mustAccept := cliRule(sw)
			firstProc, exitIdx, envFail, stderrBefore := -1, -1, false, false
			var sideBefore []string
			var exitCode int64 = -1
			for i, ev := range p.Events {
				switch {
				case isProcessing(ev.Kind) && firstProc < 0:
					firstProc = i
				case ev.Kind == "envfail" || ev.Kind == "readfile":
					// what follows may depend on the environment (a failing call, the content of
					// a key file): not a rejection decided from the flags alone
					envFail = true
				case ev.Kind == "exit":
					exitIdx = i
					if n, ok := ev.Args[0].(Num); ok && n.t == nil {
						exitCode = n.c
					}
				case ev.Kind == "write" && len(ev.Args) > 2:
					if s, ok := ev.Args[2].(Str).Const(); ok && s == "stderr" {
						stderrBefore = true
					}
				}
				if exitIdx < 0 && isSideEffect(ev.Kind) {
					sideBefore = append(sideBefore, ev.Kind)
				}
			}
			check := func(id string, q []*Term, what string) {
				ob := Obligation{ID: job.Name + "#" + id, Cond: what}
				r, mod := checkModelWith(solver, cr.eng, p.Fresh, p.Prefs, q)
				switch r {
				case Unsat:
					ob.Result = "discharged"
				case Sat:
					ob.Result = "violated"
					ob.Model = mod
					ob.Details = what
					// replay through the built CLI
					if ok, detail := replayCLI(p, mod, id); ok {
						ob.Details = what + "; CLI replay: " + detail
					} else {
						ob.Result = "inconclusive"
						ob.Details = "solver model not reproduced by the CLI: " + detail
					}
				default:
					ob.Result = "inconclusive"
				}
				if ob.Result == "violated" {
					if site[ob.ID] {
						return
					}
					site[ob.ID] = true
				}
				add(ob)
			}
			pc := append([]*Term{}, p.PC...)
			if firstProc >= 0 {
				check("accepted-job-is-well-defined", append(pc, mustReject), "a job the documentation says must be rejected reaches processing ("+p.Events[firstProc].Kind+")")
				// flag wiring: option globals equal the flags at the first processing call
				ev := p.Events[firstProc]
				for i := 0; i+1 < len(ev.Args); i++ {
					tag, ok := ev.Args[i].(Str)
					if !ok {
						continue
					}
					c, ok := tag.Const()
					if !ok || !strings.HasPrefix(c, "@") {
						continue
					}
					g := c[1:]
					flag := map[string]string{"redactedString": "flag.replacement", "redactNumbers": "flag.redactNumbers", "redactBooleans": "flag.redactBooleans",
						"redactIPs": "flag.redactIPs", "redactNamespaces": "flag.redactNamespaces", "atlasLogStartDate": "flag.atlasLogStartDate", "atlasLogEndDate": "flag.atlasLogEndDate"}[g]
					fv, ok := p.Inputs[flag]
					if flag == "" || !ok {
						continue
					}
					var neq *Term
					switch gv := ev.Args[i+1].(type) {
					case Str:
						neq = TNot(TEq(gv.Term(), fv.(Str).Term()))
					case bool, *Term:
						neq = TNot(TEq(boolTerm(gv), boolTerm(fv)))
					case Num:
						neq = TNot(TEq(numTermInt(gv), numTermInt(fv.(Num))))
					}
					if neq != nil {
						ob := Obligation{ID: job.Name + "#wiring:" + g}
						if r, _ := solver.Check(append(append([]*Term{}, pc...), neq), false); r == Unsat {
							ob.Result = "discharged"
						} else if r == Sat {
							ob.Result = "violated"
							ob.Details = "option " + g + " can differ from the value of its flag when processing starts"
							if site[ob.ID] {
								continue
							}
							site[ob.ID] = true
						} else {
							ob.Result = "inconclusive"
						}
						add(ob)
					}
				}
			} else if exitIdx >= 0 && !envFail {
				ob := Obligation{ID: job.Name + "#rejection-exits-non-zero"}
				if exitCode > 0 {
					ob.Result = "discharged"
				} else {
					ob.Result = "violated"
					ob.Details = fmt.Sprintf("rejection ends with exit status %d", exitCode)
				}
				add(ob)
				ob2 := Obligation{ID: job.Name + "#rejection-explained", Result: "discharged"}
				if !stderrBefore {
					ob2.Result = "violated"
					ob2.Details = "exit without a message on stderr"
				}
				add(ob2)
				check("rejected-job-is-ill-defined", append(pc, mustAccept), "a job the documentation says must run is rejected")
				if len(sideBefore) > 0 {
					sort.Strings(sideBefore)
					check("rejection-without-side-effects:"+strings.Join(uniq(sideBefore), "+"), pc, "a rejection decided from the flags alone happens after side effects: "+strings.Join(uniq(sideBefore), ", "))
				} else {
					add(Obligation{ID: job.Name + "#rejection-without-side-effects", Result: "discharged"})
				}
			}
		}
	}
}

func uniq(ss []string) []string {
	var out []string
	for i, s := range ss {
		if i == 0 || s != ss[i-1] {
			out = append(out, s)
		}
	}
	return out
}

func numTermInt(n Num) *Term {
	if n.t == nil {
		return TInt(n.c)
	}
	if n.t.sort == SInt {
		return n.t
	}
	return bvToInt(n.t)
}

// ---- replay through the built CLI ----

var cliBin string

func buildCLI() (string, error) {
	if cliBin != "" {
		return cliBin, nil
	}
	dir, err := os.MkdirTemp("", "gosym-cli-")
	if err != nil {
		return "", err
	}
	cmd := exec.Command("go", "build", "-o", dir+"/anonymongo", "./src")
	cmd.Dir = repoDir
	cmd.Env = append(goEnv(), "GOCACHE="+goCacheDir())
	if out, err := cmd.CombinedOutput(); err != nil {
		return "", fmt.Errorf("%v: %s", err, out)
	}
	cliBin = dir + "/anonymongo"
	return cliBin, nil
}

// replayCLI runs the real binary with the model's flags in a scratch directory and
// reports whether the predicted behaviour (acceptance / rejection / side effects) shows.
func replayCLI(p *PathResult, mod *Model, id string) (bool, string) {
	bin, err := buildCLI()
	if err != nil {
		return false, "cannot build CLI: " + err.Error()
	}
	dir, err := os.MkdirTemp("", "gosym-clirun-")
	if err != nil {
		return false, err.Error()
	}
	defer os.RemoveAll(dir)
	sval := func(name string) string {
		if v, ok := p.Inputs[name]; ok {
			if r, err := mod.Eval(v.(Str).Term()); err == nil {
				return r.(string)
			}
		}
		return ""
	}
	ival := func(name string) int64 {
		if v, ok := p.Inputs[name]; ok {
			if r, err := mod.Eval(numTermInt(v.(Num))); err == nil {
				return r.(int64)
			}
		}
		return 0
	}
	bval := func(name string) bool {
		if v, ok := p.Inputs[name]; ok {
			if r, err := mod.Eval(boolTerm(v)); err == nil {
				return r.(bool)
			}
		}
		return false
	}
	args := []string{"redact"}
	addS := func(flag, name string) {
		if v := sval(name); v != "" {
			args = append(args, "--"+flag, v)
		}
	}
	if sval("flag.outputFile") != "" {
		args = append(args, "--outputFile", dir+"/out.log")
	}
	if bval("flag.encrypt") {
		args = append(args, "--encrypt", "--encryptionKeyFile", dir+"/key.enc")
	}
	if sval("flag.redactFieldsRegexp") != "" {
		args = append(args, "--redactFieldsRegexp", "^ssn$")
	}
	if p.Inputs["flagcount.redactFieldNames"] != nil && p.Inputs["flagcount.redactFieldNames"].(Num).c > 0 {
		args = append(args, "--redactFieldNames", "db.coll")
	}
	addS("atlasProjectId", "flag.atlasProjectId")
	addS("atlasClusterName", "flag.atlasClusterName")
	addS("atlasPublicKey", "flag.atlasPublicKey")
	addS("atlasPrivateKey", "flag.atlasPrivateKey")
	if v := ival("flag.atlasLogStartDate"); v != 0 {
		args = append(args, "--atlasLogStartDate", fmt.Sprint(v))
	}
	if v := ival("flag.atlasLogEndDate"); v != 0 {
		args = append(args, "--atlasLogEndDate", fmt.Sprint(v))
	}
	if p.Inputs["nargs"].(Num).c == 1 {
		in := dir + "/in.log"
		os.WriteFile(in, []byte(`{"t":{"$date":"2024-05-01T10:00:00.123+00:00"},"s":"I","c":"COMMAND","id":51803,"ctx":"conn42","msg":"Slow query","attr":{"ns":"db.coll","command":{"find":"coll","filter":{"ssn":"123"}}}}`+"\n"), 0644)
		args = append(args, in)
	}
	cmd := exec.Command(bin, args...)
	cmd.Dir = dir
	env := []string{"PATH=" + os.Getenv("PATH"), "HOME=" + dir, "HTTPS_PROXY=http://127.0.0.1:9", "https_proxy=http://127.0.0.1:9"}
	if r, err := mod.Eval(TVar("env.ATLAS_PUBLIC_KEY", SStr)); err == nil && r.(string) != "" {
		env = append(env, "ATLAS_PUBLIC_KEY="+r.(string))
	}
	if r, err := mod.Eval(TVar("env.ATLAS_PRIVATE_KEY", SStr)); err == nil && r.(string) != "" {
		env = append(env, "ATLAS_PRIVATE_KEY="+r.(string))
	}
	cmd.Env = env
	if bval("stdinPiped") {
		cmd.Stdin = strings.NewReader(`{"t":{"$date":"2024-05-01T10:00:00.123+00:00"},"s":"I","c":"NETWORK","id":1,"ctx":"c","msg":"m","attr":{}}` + "\n")
	} else {
		// a character device, as an interactive terminal would be
		if f, err := os.Open("/dev/null"); err == nil {
			defer f.Close()
			cmd.Stdin = f
		}
	}
	out, runErr := cmd.CombinedOutput()
	code := 0
	if ee, ok := runErr.(*exec.ExitError); ok {
		code = ee.ExitCode()
	} else if runErr != nil {
		return false, runErr.Error()
	}
	files, _ := filepath.Glob(dir + "/*")
	var created []string
	for _, f := range files {
		b := filepath.Base(f)
		if b != "in.log" {
			created = append(created, b)
		}
	}
	text := string(out)
	network := strings.Contains(text, "Downloading Atlas cluster logs") || strings.Contains(text, "Error downloading Atlas logs")
	detail := fmt.Sprintf("args=%v exit=%d created=%v network=%v output=%q", args[1:], code, created, network, trunc(text, 200))
	switch {
	case id == "accepted-job-is-well-defined":
		// processing started: either success, or a processing-stage message
		processed := code == 0 || network || strings.Contains(text, "Error processing") || strings.Contains(text, "Error counting lines")
		return processed, detail
	case id == "rejected-job-is-ill-defined":
		return code != 0 && !network, detail
	case strings.HasPrefix(id, "rejection-without-side-effects"):
		return code != 0 && (len(created) > 0 || network), detail
	}
	return false, detail
}
