package main

// C18: `redact` accepts exactly the well-defined jobs; rejections have no side effects.
// The real main() and its Run closure are executed with every flag value, the number of
// positional arguments, the stdin mode and the environment symbolic; processing calls are
// cut into events. The acceptance rule below is written from the property text / README.

import (
	"fmt"
	"os"
	"os/exec"
	"path/filepath"
	"sort"
	"strings"
)

var cliCut = []string{"ProcessMongoLogFile", "ProcessMongoLogFileFromReader", "countLines",
	"(*AtlasClient).DownloadClusterLogs", "(*AtlasClient).DeleteClusterLogs"}

var cliSnapshot = []string{"redactedString", "redactNumbers", "redactBooleans", "redactIPs", "redactNamespaces", "shouldEncrypt", "atlasLogStartDate", "atlasLogEndDate"}

type cliSwitches struct {
	file, stdin, out, enc, rx, fn, proj, clus, pubF, privF, start, end, pubE, privE *Term
}

func strSet(inputs map[string]Value, name string) *Term {
	v, ok := inputs[name]
	if !ok {
		return tFalse
	}
	return TNot(TEq(v.(Str).Term(), TStr("")))
}

func intSet(inputs map[string]Value, name string) *Term {
	v, ok := inputs[name]
	if !ok {
		return tFalse
	}
	n := v.(Num)
	if n.t == nil {
		return TBool(n.c != 0)
	}
	return TNot(TEq(n.t, TInt(0)))
}

func switchesOf(p *PathResult) cliSwitches {
	in := p.Inputs
	s := cliSwitches{}
	s.file = TBool(in["nargs"].(Num).c == 1)
	if v, ok := in["stdinPiped"]; ok {
		s.stdin = boolTerm(v)
	} else {
		s.stdin = TVar("stdinPiped", SBool)
	}
	s.out = strSet(in, "flag.outputFile")
	if v, ok := in["flag.encrypt"]; ok {
		s.enc = boolTerm(v)
	} else {
		s.enc = tFalse
	}
	s.rx = strSet(in, "flag.redactFieldsRegexp")
	s.fn = tFalse
	if v, ok := in["flagcount.redactFieldNames"]; ok {
		s.fn = TBool(v.(Num).c > 0)
	}
	s.proj = strSet(in, "flag.atlasProjectId")
	s.clus = strSet(in, "flag.atlasClusterName")
	s.pubF = strSet(in, "flag.atlasPublicKey")
	s.privF = strSet(in, "flag.atlasPrivateKey")
	s.start = intSet(in, "flag.atlasLogStartDate")
	s.end = intSet(in, "flag.atlasLogEndDate")
	s.pubE = TNot(TEq(TVar("env.ATLAS_PUBLIC_KEY", SStr), TStr("")))
	s.privE = TNot(TEq(TVar("env.ATLAS_PRIVATE_KEY", SStr), TStr("")))
	return s
}

func tXor(a, b *Term) *Term { return TOr(TAnd(a, TNot(b)), TAnd(TNot(a), b)) }

// exactlyOne of three
func exactlyOne(a, b, c *Term) *Term {
	return TOr(TAnd(a, TNot(b), TNot(c)), TAnd(TNot(a), b, TNot(c)), TAnd(TNot(a), TNot(b), c))
}

// acceptance rule (documentation): returns must_reject, must_accept
func cliRule(s cliSwitches) (*Term, *Term) {
	atlas := TOr(s.proj, s.clus, s.start, s.end, s.pubF, s.privF)
	keys := TAnd(TOr(s.pubF, s.pubE), TOr(s.privF, s.privE))
	mustReject := TOr(
		TAnd(s.rx, s.fn),
		tXor(s.start, s.end),
		tXor(s.proj, s.clus),
		TNot(exactlyOne(s.file, s.stdin, atlas)),
		TAnd(atlas, TNot(TAnd(s.proj, s.clus, s.out, keys))),
		TAnd(s.enc, TNot(atlas), TNot(TAnd(s.file, s.out, TNot(s.stdin)))),
	)
	mustAccept := TAnd(TNot(mustReject), TNot(TAnd(s.enc, atlas)))
	return mustReject, mustAccept
}

func isProcessing(kind string) bool {
	return kind == "call:ProcessMongoLogFile" || kind == "call:ProcessMongoLogFileFromReader" || kind == "call:(*AtlasClient).DownloadClusterLogs"
}

func isSideEffect(kind string) bool {
	return kind == "create" || kind == "writefile" || kind == "rand.Read" || kind == "createtemp" || kind == "remove" || isProcessing(kind)
}

func cliPost(cr *checkRun) {
	solver := NewSolver()
	defer solver.Close()
	add := func(ob Obligation) { cr.extraOb = append(cr.extraOb, ob) }
	site := map[string]bool{}
	for ji, jr := range cr.results {
		job := cr.jobs[ji]
		for _, p := range jr.Paths {
			if p.End != "done" && p.End != "exit" {
				continue
			}
			if _, ok := p.Inputs["nargs"]; !ok {
				continue
			}
			sw := switchesOf(p)
			mustReject, mustAccept := cliRule(sw)
			firstProc, exitIdx, envFail, stderrBefore := -1, -1, false, false
			var sideBefore []string
			var exitCode int64 = -1
			for i, ev := range p.Events {
				switch {
				case isProcessing(ev.Kind) && firstProc < 0:
					firstProc = i
				case ev.Kind == "envfail" || ev.Kind == "readfile":
					// what follows may depend on the environment (a failing call, the content of
					// a key file): not a rejection decided from the flags alone
					envFail = true
				case ev.Kind == "exit":
					exitIdx = i
					if n, ok := ev.Args[0].(Num); ok && n.t == nil {
						exitCode = n.c
					}
				case ev.Kind == "write" && len(ev.Args) > 2:
					if s, ok := ev.Args[2].(Str).Const(); ok && s == "stderr" {
						stderrBefore = true
					}
				}
				if exitIdx < 0 && isSideEffect(ev.Kind) {
					sideBefore = append(sideBefore, ev.Kind)
				}
			}
			check := func(id string, q []*Term, what string) {
				ob := Obligation{ID: job.Name + "#" + id, Cond: what}
				r, mod := checkModelWith(solver, cr.eng, p.Fresh, p.Prefs, q)
				switch r {
				case Unsat:
					ob.Result = "discharged"
				case Sat:
					ob.Result = "violated"
					ob.Model = mod
					ob.Details = what
					// replay through the built CLI
					if ok, detail := replayCLI(p, mod, id); ok {
						ob.Details = what + "; CLI replay: " + detail
					} else {
						ob.Result = "inconclusive"
						ob.Details = "solver model not reproduced by the CLI: " + detail
					}
				default:
					ob.Result = "inconclusive"
				}
				if ob.Result == "violated" {
					if site[ob.ID] {
						return
					}
					site[ob.ID] = true
				}
				add(ob)
			}
			pc := append([]*Term{}, p.PC...)
			if firstProc >= 0 {
				check("accepted-job-is-well-defined", append(pc, mustReject), "a job the documentation says must be rejected reaches processing ("+p.Events[firstProc].Kind+")")
				// flag wiring: option globals equal the flags at the first processing call
				ev := p.Events[firstProc]
				for i := 0; i+1 < len(ev.Args); i++ {
					tag, ok := ev.Args[i].(Str)
					if !ok {
						continue
					}
					c, ok := tag.Const()
					if !ok || !strings.HasPrefix(c, "@") {
						continue
					}
					g := c[1:]
					flag := map[string]string{"redactedString": "flag.replacement", "redactNumbers": "flag.redactNumbers", "redactBooleans": "flag.redactBooleans",
						"redactIPs": "flag.redactIPs", "redactNamespaces": "flag.redactNamespaces", "atlasLogStartDate": "flag.atlasLogStartDate", "atlasLogEndDate": "flag.atlasLogEndDate"}[g]
					fv, ok := p.Inputs[flag]
					if flag == "" || !ok {
						continue
					}
					var neq *Term
					switch gv := ev.Args[i+1].(type) {
					case Str:
						neq = TNot(TEq(gv.Term(), fv.(Str).Term()))
					case bool, *Term:
						neq = TNot(TEq(boolTerm(gv), boolTerm(fv)))
					case Num:
						neq = TNot(TEq(numTermInt(gv), numTermInt(fv.(Num))))
					}
					if neq != nil {
						ob := Obligation{ID: job.Name + "#wiring:" + g}
						if r, _ := solver.Check(append(append([]*Term{}, pc...), neq), false); r == Unsat {
							ob.Result = "discharged"
						} else if r == Sat {
							ob.Result = "violated"
							ob.Details = "option " + g + " can differ from the value of its flag when processing starts"
							if site[ob.ID] {
								continue
							}
							site[ob.ID] = true
						} else {
							ob.Result = "inconclusive"
						}
						add(ob)
					}
				}
			} else if exitIdx >= 0 && !envFail {
				ob := Obligation{ID: job.Name + "#rejection-exits-non-zero"}
				if exitCode > 0 {
					ob.Result = "discharged"
				} else {
					ob.Result = "violated"
					ob.Details = fmt.Sprintf("rejection ends with exit status %d", exitCode)
				}
				add(ob)
				ob2 := Obligation{ID: job.Name + "#rejection-explained", Result: "discharged"}
				if !stderrBefore {
					ob2.Result = "violated"
					ob2.Details = "exit without a message on stderr"
				}
				add(ob2)
				check("rejected-job-is-ill-defined", append(pc, mustAccept), "a job the documentation says must run is rejected")
				if len(sideBefore) > 0 {
					sort.Strings(sideBefore)
					check("rejection-without-side-effects:"+strings.Join(uniq(sideBefore), "+"), pc, "a rejection decided from the flags alone happens after side effects: "+strings.Join(uniq(sideBefore), ", "))
				} else {
					add(Obligation{ID: job.Name + "#rejection-without-side-effects", Result: "discharged"})
				}
			}
		}
	}
}

func uniq(ss []string) []string {
	var out []string
	for i, s := range ss {
		if i == 0 || s != ss[i-1] {
			out = append(out, s)
		}
	}
	return out
}

func numTermInt(n Num) *Term {
	if n.t == nil {
		return TInt(n.c)
	}
	if n.t.sort == SInt {
		return n.t
	}
	return bvToInt(n.t)
}

// ---- replay through the built CLI ----

var cliBin string

func buildCLI() (string, error) {
	if cliBin != "" {
		return cliBin, nil
	}
	dir, err := os.MkdirTemp("", "gosym-cli-")
	if err != nil {
		return "", err
	}
	cmd := exec.Command("go", "build", "-o", dir+"/anonymongo", "./src")
	cmd.Dir = repoDir
	cmd.Env = append(goEnv(), "GOCACHE="+goCacheDir())
	if out, err := cmd.CombinedOutput(); err != nil {
		return "", fmt.Errorf("%v: %s", err, out)
	}
	cliBin = dir + "/anonymongo"
	return cliBin, nil
}

// replayCLI runs the real binary with the model's flags in a scratch directory and
// reports whether the predicted behaviour (acceptance / rejection / side effects) shows.
func replayCLI(p *PathResult, mod *Model, id string) (bool, string) {
	bin, err := buildCLI()
	if err != nil {
		return false, "cannot build CLI: " + err.Error()
	}
	dir, err := os.MkdirTemp("", "gosym-clirun-")
	if err != nil {
		return false, err.Error()
	}
	defer os.RemoveAll(dir)
	sval := func(name string) string {
		if v, ok := p.Inputs[name]; ok {
			if r, err := mod.Eval(v.(Str).Term()); err == nil {
				return r.(string)
			}
		}
		return ""
	}
	ival := func(name string) int64 {
		if v, ok := p.Inputs[name]; ok {
			if r, err := mod.Eval(numTermInt(v.(Num))); err == nil {
				return r.(int64)
			}
		}
		return 0
	}
	bval := func(name string) bool {
		if v, ok := p.Inputs[name]; ok {
			if r, err := mod.Eval(boolTerm(v)); err == nil {
				return r.(bool)
			}
		}
		return false
	}
	args := []string{"redact"}
	addS := func(flag, name string) {
		if v := sval(name); v != "" {
			args = append(args, "--"+flag, v)
		}
	}
	if sval("flag.outputFile") != "" {
		args = append(args, "--outputFile", dir+"/out.log")
	}
	if bval("flag.encrypt") {
		args = append(args, "--encrypt", "--encryptionKeyFile", dir+"/key.enc")
	}
	if sval("flag.redactFieldsRegexp") != "" {
		args = append(args, "--redactFieldsRegexp", "^ssn$")
	}
	if p.Inputs["flagcount.redactFieldNames"] != nil && p.Inputs["flagcount.redactFieldNames"].(Num).c > 0 {
		args = append(args, "--redactFieldNames", "db.coll")
	}
	addS("atlasProjectId", "flag.atlasProjectId")
	addS("atlasClusterName", "flag.atlasClusterName")
	addS("atlasPublicKey", "flag.atlasPublicKey")
	addS("atlasPrivateKey", "flag.atlasPrivateKey")
	if v := ival("flag.atlasLogStartDate"); v != 0 {
		args = append(args, "--atlasLogStartDate", fmt.Sprint(v))
	}
	if v := ival("flag.atlasLogEndDate"); v != 0 {
		args = append(args, "--atlasLogEndDate", fmt.Sprint(v))
	}
	if p.Inputs["nargs"].(Num).c == 1 {
		in := dir + "/in.log"
		os.WriteFile(in, []byte(`{"t":{"$date":"2024-05-01T10:00:00.123+00:00"},"s":"I","c":"COMMAND","id":51803,"ctx":"conn42","msg":"Slow query","attr":{"ns":"db.coll","command":{"find":"coll","filter":{"ssn":"123"}}}}`+"\n"), 0644)
		args = append(args, in)
	}
	cmd := exec.Command(bin, args...)
	cmd.Dir = dir
	env := []string{"PATH=" + os.Getenv("PATH"), "HOME=" + dir, "HTTPS_PROXY=http://127.0.0.1:9", "https_proxy=http://127.0.0.1:9"}
	for _, nm := range []string{"ATLAS_PUBLIC_KEY", "ATLAS_PRIVATE_KEY"} {
		val := ""
		if r, err := mod.Eval(TVar("env."+nm, SStr)); err == nil {
			val = r.(string)
		}
		// exported with an empty value (os.LookupEnv distinguishes this from unset)
		setEmpty := false
		if b, ok := mod.Bool["envset."+nm]; ok && b {
			setEmpty = true
		}
		if val != "" || setEmpty {
			env = append(env, nm+"="+val)
		}
	}
	cmd.Env = env
	if bval("stdinPiped") {
		cmd.Stdin = strings.NewReader(`{"t":{"$date":"2024-05-01T10:00:00.123+00:00"},"s":"I","c":"NETWORK","id":1,"ctx":"c","msg":"m","attr":{}}` + "\n")
	} else {
		// a character device, as an interactive terminal would be
		if f, err := os.Open("/dev/null"); err == nil {
			defer f.Close()
			cmd.Stdin = f
		}
	}
	out, runErr := cmd.CombinedOutput()
	code := 0
	if ee, ok := runErr.(*exec.ExitError); ok {
		code = ee.ExitCode()
	} else if runErr != nil {
		return false, runErr.Error()
	}
	files, _ := filepath.Glob(dir + "/*")
	var created []string
	for _, f := range files {
		b := filepath.Base(f)
		if b != "in.log" {
			created = append(created, b)
		}
	}
	text := string(out)
	network := strings.Contains(text, "Downloading Atlas cluster logs") || strings.Contains(text, "Error downloading Atlas logs")
	detail := fmt.Sprintf("args=%v exit=%d created=%v network=%v output=%q", args[1:], code, created, network, trunc(text, 200))
	switch {
	case id == "accepted-job-is-well-defined":
		// processing started: either success, or a processing-stage message
		processed := code == 0 || network || strings.Contains(text, "Error processing") || strings.Contains(text, "Error counting lines")
		return processed, detail
	case id == "rejected-job-is-ill-defined":
		return code != 0 && !network, detail
	case strings.HasPrefix(id, "rejection-without-side-effects"):
		return code != 0 && (len(created) > 0 || network), detail
	}
	return false, detail
}

// atlasLoopPost: the Atlas branch of the redact command after a successful download of n
// files (the download itself is cut; it is the subject of the library-level harness).
// C16: file i is redacted into <outputFile>.<i> with the download called for the flags given.
// C17: every way out of the command (return or exit) has removed all downloaded files.
func atlasLoopPost(which string) func(cr *checkRun) {
	return func(cr *checkRun) {
		solver := NewSolver()
		defer solver.Close()
		seen := map[string]bool{}
		add := func(job *Job, id, result, details string) {
			ob := Obligation{ID: job.Name + "#" + id, Result: result, Details: details}
			if result == "violated" {
				if seen[ob.ID] {
					return
				}
				seen[ob.ID] = true
			}
			cr.extraOb = append(cr.extraOb, ob)
		}
		for ji, jr := range cr.results {
			job := cr.jobs[ji]
			if job.Harness != "H_c18" {
				continue
			}
			for _, p := range jr.Paths {
				if p.End != "done" && p.End != "exit" {
					continue
				}
				valid := func(q ...*Term) bool {
					r, _ := solver.Check(append(append([]*Term{}, p.PC...), q...), false)
					return r == Unsat
				}
				dl := -1
				for i, ev := range p.Events {
					if ev.Kind == "call:(*AtlasClient).DownloadClusterLogs" {
						dl = i
					}
				}
				if dl < 0 {
					continue
				}
				// the download succeeded iff no envfail directly follows it
				dlFailed := dl+1 < len(p.Events) && p.Events[dl+1].Kind == "envfail"
				var files []*Term
				for i := 0; ; i++ {
					v, ok := p.Inputs[fmt.Sprintf("tmpfile%d", i)]
					if !ok {
						break
					}
					files = append(files, v.(Str).Term())
				}
				if which == "C16" {
					ev := p.Events[dl]
					// args: receiver, ctx, publicKey, privateKey, projectID, clusterName, start, end
					if len(ev.Args) >= 8 {
						eqStr := func(arg Value, flag string, id string) {
							fv, ok := p.Inputs[flag]
							a, isS := arg.(Str)
							if !ok || !isS {
								return
							}
							res := "violated"
							if a.Term() == fv.(Str).Term() || valid(TNot(TEq(a.Term(), fv.(Str).Term()))) {
								res = "discharged"
							}
							add(job, "download-called-with:"+id, res, "")
						}
						eqStr(ev.Args[4], "flag.atlasProjectId", "project")
						eqStr(ev.Args[5], "flag.atlasClusterName", "cluster")
						// key pair: flag, else environment
						for k, nm := range map[int][2]string{2: {"flag.atlasPublicKey", "env.ATLAS_PUBLIC_KEY"}, 3: {"flag.atlasPrivateKey", "env.ATLAS_PRIVATE_KEY"}} {
							a, isS := ev.Args[k].(Str)
							fv, ok := p.Inputs[nm[0]]
							if !isS || !ok {
								continue
							}
							want := TIte(TEq(fv.(Str).Term(), TStr("")), TVar(nm[1], SStr), fv.(Str).Term())
							res := "violated"
							if valid(TNot(TEq(a.Term(), want))) {
								res = "discharged"
							}
							add(job, "download-called-with:"+nm[0], res, "")
						}
						// window: the flags when given, else the last seven days (start before end)
						st, en := numTermInt(ev.Args[6].(Num)), numTermInt(ev.Args[7].(Num))
						fs, fe := numTermInt(p.Inputs["flag.atlasLogStartDate"].(Num)), numTermInt(p.Inputs["flag.atlasLogEndDate"].(Num))
						given := TNot(TEq(fs, TInt(0)))
						res := "violated"
						if valid(given, TNot(TAnd(TEq(st, fs), TEq(en, fe)))) && valid(TNot(given), TNot(TAnd(TEq(TSub(en, st), TInt(604800)), TCmp("<", st, en)))) {
							res = "discharged"
						}
						add(job, "download-window", res, "")
					}
					if !dlFailed {
						k := 0
						for _, e2 := range p.Events[dl+1:] {
							if e2.Kind != "call:ProcessMongoLogFile" {
								continue
							}
							// args: fileReader, filePath, outWriter, bar
							okFile := k < len(files) && e2.Args[1].(Str).Term() == files[k]
							wantOut := strConcat(p.Inputs["flag.outputFile"].(Str), mkStr(fmt.Sprintf(".%d", k)))
							okOut := false
							if w, ok := e2.Args[2].(Iface); ok {
								if o, ok := w.v.(*Opaque); ok && o != nil {
									if f, ok := o.data.(*fileObj); ok {
										okOut = f.name.Term() == wantOut.Term() || valid(TNot(TEq(f.name.Term(), wantOut.Term())))
									}
								}
							}
							res := "discharged"
							if !okFile || !okOut {
								res = "violated"
							}
							add(job, fmt.Sprintf("file-%d-redacted-into-output-%d", k, k), res, fmt.Sprintf("file ok=%v output ok=%v", okFile, okOut))
							k++
						}
						if p.End == "done" {
							res := "discharged"
							if k != len(files) {
								res = "violated"
							}
							add(job, "every-file-processed", res, fmt.Sprintf("%d of %d", k, len(files)))
						}
					}
				}
				if which == "C17" {
					live := map[*Term]bool{}
					for _, ev := range p.Events {
						switch ev.Kind {
						case "createtemp":
							live[ev.Args[0].(Str).Term()] = true
						case "remove":
							delete(live, ev.Args[0].(Str).Term())
						}
					}
					if dlFailed {
						continue // the download cleans up after itself (library-level harness)
					}
					res := "discharged"
					if len(live) > 0 {
						res = "violated"
					}
					how := "return"
					if p.End == "exit" {
						how = "exit"
					}
					add(job, "downloaded-files-removed-on-"+how, res, fmt.Sprintf("%d downloaded file(s) left when the command ends by %s", len(live), how))
				}
			}
		}
	}
}

func atlasMainJob() *Job {
	j := &Job{Name: "redact-atlas-loop", Harness: "H_c18", Lines: map[string]*Template{}, NoNative: true, Params: map[string]string{
		"subcommand": "redact", "symenv": "ATLAS_PUBLIC_KEY,ATLAS_PRIVATE_KEY", "fs.kinds": "absent,file", "createMayFail": "yes",
		"cut.files": "2", "cutMayFail": "ProcessMongoLogFile,countLines,(*AtlasClient).DownloadClusterLogs"}}
	j.cutSet = map[string]bool{}
	for _, c := range cliCut {
		j.cutSet[c] = true
	}
	return j
}
