package main

import (
	"time"
	"fmt"
	"sort"
	"strings"
)

func constArg(v Value, what string) string {
	s, ok := v.(Str).Const()
	if !ok {
		panic(abort(what + ": name must be constant"))
	}
	return s
}

func (m *Machine) recordInput(name string, v Value) {
	if _, ok := m.inputs[name]; !ok {
		m.inputOrder = append(m.inputOrder, name)
	}
	m.inputs[name] = v
}

func registerHarnessAPI(e *Engine) {
	in := e.intrinsics
	P := mainPath + "."
	in[P+"verifString"] = func(m *Machine, fr *frame, a []Value) Value {
		name := constArg(a[0], "verifString")
		if pv, ok := map[string]string{"replacement": "<REPL>", "privateKey": "Pr1v4teK3y-9f3a", "publicKey": "pubK3y-77", "projectId": "5f2a9c0e1b", "clusterName": "Cluster0"}[name]; ok {
			m.prefs[TVar(name, SStr)] = pv
		}
		v := mkStrT(TVar(name, SStr))
		m.recordInput(name, v)
		return v
	}
	in[P+"verifName"] = func(m *Machine, fr *frame, a []Value) Value {
		name := constArg(a[0], "verifName")
		t := TVar(name, SStr)
		m.freshAtoms[t] = true
		v := mkStrT(t)
		m.recordInput(name, v)
		return v
	}
	in[P+"verifBool"] = func(m *Machine, fr *frame, a []Value) Value {
		name := constArg(a[0], "verifBool")
		v := mkBool(TVar(name, SBool))
		m.recordInput(name, v)
		return v
	}
	in[P+"verifInt"] = func(m *Machine, fr *frame, a []Value) Value {
		name := constArg(a[0], "verifInt")
		t := TVar(name, SInt)
		m.addPC(TCmp(">=", t, TInt(-(1 << 62))))
		m.addPC(TCmp("<=", t, TInt(1<<62)))
		v := Num{t: t}
		m.recordInput(name, v)
		return v
	}
	in[P+"verifByte"] = func(m *Machine, fr *frame, a []Value) Value {
		name := constArg(a[0], "verifByte")
		v := Num{t: TVar(name, SBV8)}
		m.recordInput(name, v)
		return v
	}
	in[P+"verifBytes"] = func(m *Machine, fr *frame, a []Value) Value {
		name := constArg(a[0], "verifBytes")
		n := a[1].(Num)
		if n.t != nil {
			panic(abort("verifBytes: symbolic length"))
		}
		arr := make([]Value, n.c)
		for i := range arr {
			bn := fmt.Sprintf("%s[%d]", name, i)
			arr[i] = Num{t: TVar(bn, SBV8)}
			m.recordInput(bn, arr[i])
		}
		return Slice{arr: &arr, len: len(arr), cap: len(arr)}
	}
	in[P+"verifChoose"] = func(m *Machine, fr *frame, a []Value) Value {
		name := constArg(a[0], "verifChoose")
		n := a[1].(Num)
		if n.t != nil || n.c <= 0 {
			panic(abort("verifChoose: bad n"))
		}
		d := m.choose(int(n.c), nil)
		v := Num{c: int64(d)}
		m.recordInput(name, v)
		return v
	}
	in[P+"verifFreshProcess"] = func(m *Machine, fr *frame, a []Value) Value {
		// a new process: every package-level variable of the program is re-initialised
		for g := range m.globals {
			if g.Pkg == m.eng.mainPkg {
				delete(m.globals, g)
			}
		}
		m.callSSA(nil, 0, m.eng.mainPkg.Func("init"), nil, nil)
		return nil
	}
	in[P+"verifAssume"] = func(m *Machine, fr *frame, a []Value) Value {
		c := boolTerm(a[0])
		if c.kind == KConst {
			if !c.b {
				panic(pathEnd{kind: "infeasible"})
			}
			return nil
		}
		m.addPCAssume(c)
		return nil
	}
	in[P+"verifAssert"] = func(m *Machine, fr *frame, a []Value) Value {
		m.assert(boolTerm(a[0]), constArg(a[1], "verifAssert"))
		return nil
	}
	in[P+"verifReach"] = func(m *Machine, fr *frame, a []Value) Value {
		m.reached[constArg(a[0], "verifReach")] = true
		return nil
	}
	in[P+"verifParam"] = func(m *Machine, fr *frame, a []Value) Value {
		return mkStr(m.job.Params[constArg(a[0], "verifParam")])
	}
	in[P+"verifLine"] = func(m *Machine, fr *frame, a []Value) Value {
		name := constArg(a[0], "verifLine")
		tpl := m.job.Lines[name]
		if tpl == nil {
			panic(abort("no template bound to line " + name))
		}
		if len(tpl.Holes) == 0 {
			return mkStr(tpl.Text)
		}
		for _, h := range tpl.Holes {
			hk := holeKey(m.job, name, h.Name, h.Class)
			switch h.Class {
			case "B":
				m.recordInput(hk, mkBool(TVar(hk, SBool)))
			default:
				t := TVar(hk, SStr)
				if h.Class == "G" || h.Class == "GS" {
					m.freshAtoms[t] = true
				}
				pn := h.Name
				if name != "L0" && hk != "L0."+h.Name {
					pn = h.Name + strings.ToLower(name)
					if h.Class == "N" {
						pn = h.Name + strings.TrimLeft(name, "L")
					}
				}
				if pv, ok := preferredValue(h.Class, pn); ok {
					m.prefs[t] = pv
				}
				m.recordInput(hk, mkStrT(t))
			}
		}
		return mkStrT(TVar("line!"+name, SStr))
	}
	in[P+"verifHoles"] = func(m *Machine, fr *frame, a []Value) Value {
		name := constArg(a[0], "verifHoles")
		class := constArg(a[1], "verifHoles")
		tpl := m.job.Lines[name]
		var out []Str
		for _, h := range tpl.Holes {
			if h.Class == class {
				out = append(out, mkStrT(TVar(holeKey(m.job, name, h.Name, h.Class), SStr)))
			}
		}
		return mkStrSlice(out)
	}
	in[P+"verifBoolHoles"] = func(m *Machine, fr *frame, a []Value) Value {
		name := constArg(a[0], "verifBoolHoles")
		tpl := m.job.Lines[name]
		var arr []Value
		for _, h := range tpl.Holes {
			if h.Class == "B" {
				arr = append(arr, mkBool(TVar(holeKey(m.job, name, h.Name, "B"), SBool)))
			}
		}
		return Slice{arr: &arr, len: len(arr), cap: len(arr)}
	}
	in[P+"verifHolePaths"] = func(m *Machine, fr *frame, a []Value) Value {
		tpl := m.job.Lines[constArg(a[0], "verifHolePaths")]
		kind := constArg(a[1], "verifHolePaths")
		var out []Str
		if tpl != nil {
			for _, hp := range tpl.HolePositions() {
				if hp.IsKey == (kind == "key") {
					out = append(out, mkStr(hp.Path))
				}
			}
		}
		return mkStrSlice(out)
	}
	in[P+"verifHoleClasses"] = func(m *Machine, fr *frame, a []Value) Value {
		tpl := m.job.Lines[constArg(a[0], "verifHoleClasses")]
		kind := constArg(a[1], "verifHoleClasses")
		var out []Str
		if tpl != nil {
			for _, hp := range tpl.HolePositions() {
				if hp.IsKey == (kind == "key") {
					out = append(out, mkStr(hp.Class))
				}
			}
		}
		return mkStrSlice(out)
	}
	in[P+"verifLeaks"] = func(m *Machine, fr *frame, a []Value) Value {
		return mkBool(m.leaks(argStr(a[0]), argStr(a[1])))
	}
	in[P+"verifNote"] = func(m *Machine, fr *frame, a []Value) Value {
		m.note(constArg(a[0], "verifNote"))
		return nil
	}
}

// cryptoUF: the secret may legitimately flow into these (hash / ciphertext).
func cryptoUF(op string) bool {
	return strings.HasPrefix(op, "sha256byte#") || op == "enc" || op == "hexbyte" || op == "md5hex"
}

func mentionsOutsideCrypto(t *Term, atoms map[*Term]struct{}) bool {
	switch t.kind {
	case KVar:
		_, ok := atoms[t]
		return ok
	case KApp:
		if t.uf && cryptoUF(ufBase(t.op)) {
			return false
		}
		for _, a := range t.args {
			if mentionsOutsideCrypto(a, atoms) {
				return true
			}
		}
	}
	return false
}

// leaks: does hay contain secret? Segments that do not depend on the secret (constants,
// other atoms, hashes, ciphertexts) are assumed not to contain it (reported assumption).
func (m *Machine) leaks(hay, secret Str) *Term {
	if c, ok := secret.Const(); ok {
		if hc, ok := hay.Const(); ok {
			return TBool(strings.Contains(hc, c))
		}
	}
	st := secret.Term()
	atoms := st.Atoms()
	if len(atoms) == 0 {
		return TContains(hay.Term(), st)
	}
	var parts []*Term
	dep := false
	for _, g := range hay.segs {
		if g.t == nil {
			parts = append(parts, TStr(g.c))
			continue
		}
		t := g.t
		if t.kind == KApp && t.uf && t.op == "jstr" {
			t = t.args[0]
		}
		if mentionsOutsideCrypto(t, atoms) {
			dep = true
		}
		parts = append(parts, t)
	}
	if !dep {
		m.note("assumption: a secret is not a substring of output text that does not depend on it (constants, other values, hashes, ciphertexts)")
		return tFalse
	}
	// only dependent segments are queried, each with its neighbours dropped
	var alts []*Term
	for _, p := range parts {
		if p.kind != KConst && mentionsOutsideCrypto(p, atoms) {
			alts = append(alts, TContains(p, st))
		}
	}
	return TOr(alts...)
}

// assert records an obligation: PC ∧ ¬c must be unsatisfiable.
func (m *Machine) assert(c *Term, id string) {
	ob := Obligation{ID: id, PCSize: len(m.pc)}
	defer func() { m.obligations = append(m.obligations, ob) }()
	if c.kind == KConst {
		if c.b {
			ob.Result = "trivial"
			return
		}
		ob.Result = "violated"
		ob.Cond = "false"
		if m.job != nil && !m.job.modelBudget(id) {
			ob.Details = "further instance (model search skipped)"
		} else if r, mod := m.checkModel(m.pc); r == Sat {
			ob.Model = mod
		}
		ob.Trail = append([]int{}, m.trail[:m.tpos]...)
		return
	}
	if m.pcSet[c] {
		ob.Result = "trivial"
		return
	}
	q := append(append([]*Term{}, m.pc...), TNot(c))
	ob.Cond = c.SMT()
	if len(ob.Cond) > 400 {
		ob.Cond = ob.Cond[:400] + "..."
	}
	// verdict query first (uninterpreted predicates, no witness hygiene): unsat = holds
	// cvc5 first for string queries (predicates stay uninterpreted in verdict queries); z3 first
	// for bit-vector arithmetic (byte-level code such as encoding/base64)
	first := 1
	if len(subterms(q, func(t *Term) bool { return t.kind == KApp && !t.uf && strings.HasPrefix(t.op, "bv") })) > 0 {
		first = 0
	}
	r, _ := m.solver.CheckOn(first, q, false)
	var mod *Model
	if r == Sat {
		if m.job != nil && !m.job.modelBudget(id) {
			// further instances of an already witnessed site: no model search
			ob.Result = "violated"
			ob.Trail = append([]int{}, m.trail[:m.tpos]...)
			ob.Details = "further instance (model search skipped)"
			ob.Q = q
		} else {
			r, mod = m.checkModel(q)
			if m.job != nil && (mod == nil || !modelValid(mod, q)) {
				m.job.modelRefund(id)
			}
			if r == Unknown {
				// the abstract query is satisfiable but no concrete witness was found in time
				ob.Details = "satisfiable with uninterpreted predicates; concrete witness not found within the solver budget"
			}
		}
	}
	if ob.Result == "" {
		switch r {
		case Unsat:
			ob.Result = "discharged"
		case Sat:
			ob.Result = "violated"
			ob.Model = mod
			ob.Trail = append([]int{}, m.trail[:m.tpos]...)
		default:
			ob.Result = "inconclusive"
		}
	}
	// continue the path under the asserted condition (if possible)
	if r != Unsat || true {
		if m.feasible(c) == Unsat {
			panic(pathEnd{kind: "infeasible", msg: "assertion can never hold on this path"})
		}
		m.addPC(c)
	}
}

// checkModel: satisfiability with a model; constraints of non-vocabulary atoms and
// regexp definitions are added so that the model is a faithful concrete input.
func (m *Machine) checkModel(q []*Term) (Result, *Model) {
	return checkModelWith(m.solver, m.eng, m.freshAtoms, m.prefs, q)
}

// modelValid: every constraint evaluates to true under the model with the native
// interpretation of the engine's uninterpreted symbols (regexp, jstr, sha256, ...).
func modelValid(mod *Model, q []*Term) bool {
	for _, t := range q {
		r, err := mod.Eval(t)
		if err != nil {
			return false
		}
		if b, ok := r.(bool); !ok || !b {
			return false
		}
	}
	return true
}

func checkModelWith(solver *Solver, e *Engine, fresh map[*Term]bool, prefs map[*Term]string, q []*Term) (Result, *Model) {
	// stage 1: regular expressions stay uninterpreted; the model is accepted if it is a
	// genuine one (checked by native evaluation). Cheap, and usually succeeds because the
	// preferred witness values fall on the common side of every classifier.
	if r, mod := checkModelStage(solver, e, fresh, prefs, q, false); r == Unsat {
		return Unsat, nil
	} else if r == Sat && mod != nil && modelValid(mod, q) {
		return Sat, mod
	}
	// stage 2: with the definitions of the regular expressions
	r, mod := checkModelStage(solver, e, fresh, prefs, q, true)
	// uninterpreted stand-ins of pure library functions: make the model agree with the native
	// function at the points it uses (counterexample-guided refinement, bounded)
	seen := map[*Term]bool{}
	lemmas := []*Term{}
	t0 := time.Now()
	if (r == Unknown || (r == Sat && mod != nil && !modelValid(mod, q))) && len(subterms(q, func(t *Term) bool { return t.kind == KApp && t.uf && refinableUF(t.op) })) > 0 {
		// candidate witnesses: values on which library functions typically differ, for the atoms that
		// flow into these functions; a candidate is accepted only if the solver finds a model with it
		// and that model is valid under the native functions
		tries := 0
		for _, c := range trickyCandidates(q) {
			if tries >= 60 || time.Since(t0) > 15*time.Second {
				break
			}
			tries++
			cq := append(append([]*Term{}, q...), TEq(c.a, TStr(c.v)))
			cq = append(cq, candidateLemmas(e, q, c.a, c.v)...)
			cq = append(cq, modelConstraintsForStage(e, fresh, q, true)...)
			if r2, mod2 := solver.CheckOn(0, cq, true); r2 == Sat && mod2 != nil {
				mod2.UF = e.evalUF
				if modelValid(mod2, q) {
					return r2, mod2
				}
			}
		}
		t0 = time.Now()
	}
	for round := 0; round < 8 && r == Sat && mod != nil && !modelValid(mod, q) && time.Since(t0) < 8*time.Second; round++ {
		added := false
		for _, l := range pureLemmas(mod, append(append([]*Term{}, q...), lemmas...)) {
			if !seen[l] {
				seen[l] = true
				lemmas = append(lemmas, l)
				added = true
			}
		}
		if !added {
			break
		}
		if round == 0 {
			// refinement rounds run without the witness-hygiene preferences (searching a consistent
			// subset of them costs ~25 queries per round) and with the sharper instance axioms
			lemmas = append(lemmas, pureAxiomInstances(q)...)
		}
		full := append(append([]*Term{}, q...), lemmas...)
		r, mod = checkModelStage(solver, e, fresh, prefs, full, true, true)
	}
	return r, mod
}

func checkModelStage(solver0 *Solver, e *Engine, fresh map[*Term]bool, prefs map[*Term]string, q []*Term, withRegexDefs bool, noPrefSearch ...bool) (Result, *Model) {
	// without regexp definitions cvc5 answers in a few ms; with them z3 is the robust one
	solver := solverOrder{solver0, 1}
	if withRegexDefs {
		solver.first = 0
	}
	q2 := append([]*Term{}, q...)
	q2 = append(q2, modelConstraintsForStage(e, fresh, q, withRegexDefs)...)
	// witness hygiene: prefer distinctive values for free atoms when they are consistent
	vars := subterms(q2, func(t *Term) bool { return t.kind == KVar && t.sort == SStr })
	for _, v := range vars {
		if strings.HasPrefix(v.op, "line!") {
			continue
		}
		q2 = append(q2, TInRe(v, `(re.* (re.range " " "~"))`))
	}
	var pq []*Term
	for v, val := range prefs {
		pq = append(pq, TEq(v, TStr(val)))
	}
	sort.Slice(pq, func(i, j int) bool { return pq[i].id < pq[j].id })
	// numeric holes hold JSON number literals (decoder contract)
	for v, val := range prefs {
		if isJSONNumber(val) {
			q2 = append(q2, TInRe(v, `(re.++ (re.opt (str.to_re "-")) (re.union (str.to_re "0") (re.++ (re.range "1" "9") (re.* (re.range "0" "9")))) (re.opt (re.++ (str.to_re ".") (re.+ (re.range "0" "9")))))`))
		}
	}
	if len(noPrefSearch) > 0 && noPrefSearch[0] {
		pq = nil
	}
	if len(pq) > 0 {
		if r, mod := solver.Check(append(append([]*Term{}, q2...), pq...), true); r == Sat && mod != nil {
			mod.UF = e.evalUF
			return r, mod
		}
		// keep a maximal consistent subset of the preferences (recursive halving)
		acc := append([]*Term{}, q2...)
		budget := 24
		tKeep := time.Now()
		var keep func(ps []*Term)
		keep = func(ps []*Term) {
			// (a query that times out ends the search for a consistent subset: hygiene is optional)
			if len(ps) == 0 || budget <= 0 || time.Since(tKeep) > 12*time.Second {
				return
			}
			budget--
			r, _ := solver.Check(append(append([]*Term{}, acc...), ps...), false)
			if r == Unknown {
				budget = 0
				return
			}
			if r == Sat {
				acc = append(acc, ps...)
				return
			}
			if len(ps) == 1 {
				return
			}
			keep(ps[:len(ps)/2])
			keep(ps[len(ps)/2:])
		}
		keep(pq)
		if len(acc) > len(q2) {
			if r, mod := solver.Check(acc, true); r == Sat && mod != nil {
				mod.UF = e.evalUF
				return r, mod
			}
		}
	}
	r, mod := solver.Check(q2, true)
	if r == Sat && mod != nil {
		mod.UF = e.evalUF
	}
	if r == Unsat {
		// the hygiene constraints are not part of the claim: retry without them
		q3 := append(append([]*Term{}, q...), modelConstraintsForStage(e, fresh, q, withRegexDefs)...)
		r, mod = solver.Check(q3, true)
		if r == Sat && mod != nil {
			mod.UF = e.evalUF
		}
	}
	return r, mod
}

func modelConstraintsFor(e *Engine, fresh map[*Term]bool, q []*Term) []*Term {
	return modelConstraintsForStage(e, fresh, q, true)
}

func modelConstraintsForStage(e *Engine, fresh map[*Term]bool, q []*Term, withRegexDefs bool) []*Term {
	var out []*Term
	vars := subterms(q, func(t *Term) bool { return t.kind == KVar && t.sort == SStr })
	for _, v := range vars {
		if fresh[v] {
			// a non-vocabulary name: constrain away from the constants it was compared with
			for _, c := range subterms(q, func(t *Term) bool { return t.kind == KConst && t.sort == SStr }) {
				if e.vocab[c.s] {
					out = append(out, TNot(TEq(v, c)))
				}
			}
			out = append(out, TNot(TEq(v, TStr(""))))
		}
	}
	if !withRegexDefs {
		return out
	}
	// regexp predicates get their definition
	for _, u := range subterms(q, func(t *Term) bool { return t.kind == KApp && t.uf && strings.HasPrefix(t.op, "re#") }) {
		var id int
		fmt.Sscanf(u.op, "re#%d", &id)
		if rl, ok := regLanFor(id); ok {
			out = append(out, TEq(u, TInRe(u.args[0], rl)))
		}
	}
	return out
}

func init() {
	extraHarness = append(extraHarness, func(e *Engine) {
		e.intrinsics[mainPath+".verifEmit"] = func(m *Machine, fr *frame, a []Value) Value {
			m.events = append(m.events, Event{Kind: "emit", Args: []Value{a[0]}})
			return nil
		}
	})
}

// preferredValue: distinctive witness values per hole class (used only to make replays
// readable and coincidence-free; never part of a verdict query).
func preferredValue(class, name string) (string, bool) {
	switch class {
	case "S":
		return "S3CR3T-" + name + "-x", true
	case "E":
		return "s3cr3t." + name + "@corp-" + name + ".example", true
	case "D":
		return "2031-07-0" + string('1'+byte(len(name)%8)) + "T11:22:33.444Z", true
	case "O":
		return "5f8a" + fmt.Sprintf("%020x", len(name)+0xabcde), true
	case "B64":
		return "c2VjcmV0LXBheWxvYWQ=", true
	case "G", "F", "GS":
		return "fld_" + name, true
	case "DB":
		return "proddb_" + name, true
	case "COLL":
		return "customers_" + name, true
	case "N":
		return "918273645" + strings.TrimLeft(name, "n"), true
	case "IP":
		return "203.0.113.77:51234", true
	}
	return "", false
}


type solverOrder struct {
	s     *Solver
	first int
}

func (o solverOrder) Check(ts []*Term, wantModel bool) (Result, *Model) {
	return o.s.CheckOn(o.first, ts, wantModel)
}
