package main

// Generic fallback for pure standard-library functions the target code may call.
//
//   - all arguments concrete: the function is evaluated natively (reflection);
//   - some argument symbolic: each result is an uninterpreted function of the argument terms
//     ("pure:<name>#<i>"; functional consistency is all the solver knows, plus a few instance
//     axioms for common functions). This over-approximates the function, so a universal claim
//     proved with it holds for the real function; a counterexample is only accepted after the
//     model has been made consistent with the native function (CEGAR lemmas, see pureLemmas)
//     and after the native replay on the real build reproduces it.

import (
	"sort"
	"regexp"
	"bytes"
	"encoding/hex"
	"fmt"
	"net"
	"net/url"
	"path"
	"path/filepath"
	"reflect"
	"strconv"
	"strings"
	"unicode"
	"unicode/utf8"
)

var pureFuncs = map[string]any{
	"regexp.compileErr": func(p string) string {
		if _, err := regexp.Compile(p); err != nil {
			return err.Error()
		}
		return ""
	},
	"strings.Cut":            strings.Cut,
	"strings.CutPrefix":      strings.CutPrefix,
	"strings.CutSuffix":      strings.CutSuffix,
	"strings.ContainsAny":    strings.ContainsAny,
	"strings.ContainsRune":   strings.ContainsRune,
	"strings.Count":          strings.Count,
	"strings.EqualFold":      strings.EqualFold,
	"strings.IndexAny":       strings.IndexAny,
	"strings.IndexByte":      strings.IndexByte,
	"strings.IndexRune":      strings.IndexRune,
	"strings.LastIndex":      strings.LastIndex,
	"strings.LastIndexAny":   strings.LastIndexAny,
	"strings.LastIndexByte":  strings.LastIndexByte,
	"strings.Repeat":         strings.Repeat,
	"strings.Replace":        strings.Replace,
	"strings.ToUpper":        strings.ToUpper,
	"strings.ToTitle":        strings.ToTitle,
	"strings.Trim":           strings.Trim,
	"strings.TrimSuffix":     strings.TrimSuffix,
	"strings.ToValidUTF8":    strings.ToValidUTF8,
	"strings.Compare":        strings.Compare,
	"strconv.Atoi":           strconv.Atoi,
	"strconv.Itoa":           strconv.Itoa,
	"strconv.ParseInt":       strconv.ParseInt,
	"strconv.ParseUint":      strconv.ParseUint,
	"strconv.ParseFloat":     pureParseFloatOK,
	"strconv.ParseBool":      strconv.ParseBool,
	"strconv.FormatInt":      strconv.FormatInt,
	"strconv.FormatBool":     strconv.FormatBool,
	"strconv.Quote":          strconv.Quote,
	"strconv.AppendQuote":    func(dst, s string) string { return string(strconv.AppendQuote([]byte(dst), s)) },
	"strconv.AppendQuoteToASCII": func(dst, s string) string { return string(strconv.AppendQuoteToASCII([]byte(dst), s)) },
	"strconv.AppendInt":      func(dst string, i int64, base int) string { return string(strconv.AppendInt([]byte(dst), i, base)) },
	"strconv.Unquote":        strconv.Unquote,
	"strconv.QuoteToASCII":   strconv.QuoteToASCII,
	"encoding/hex.EncodeToString": func(b string) string { return hex.EncodeToString([]byte(b)) },
	"encoding/hex.DecodeString": func(s string) (string, error) {
		b, err := hex.DecodeString(s)
		return string(b), err
	},
	"unicode.IsDigit":   unicode.IsDigit,
	"unicode.IsLetter":  unicode.IsLetter,
	"unicode.IsSpace":   unicode.IsSpace,
	"unicode.IsUpper":   unicode.IsUpper,
	"unicode.IsLower":   unicode.IsLower,
	"unicode.IsPunct":   unicode.IsPunct,
	"unicode.IsPrint":   unicode.IsPrint,
	"unicode.IsNumber":  unicode.IsNumber,
	"unicode.IsControl": unicode.IsControl,
	"unicode.ToLower":   unicode.ToLower,
	"unicode.ToUpper":   unicode.ToUpper,
	"unicode/utf8.ValidString":       utf8.ValidString,
	"unicode/utf8.RuneCountInString": utf8.RuneCountInString,
	"unicode/utf8.RuneLen":           utf8.RuneLen,
	"unicode/utf8.ValidRune":         utf8.ValidRune,
	"net.ParseIP": func(s string) string { // nil-ness and canonical text are what callers can observe here
		ip := net.ParseIP(s)
		if ip == nil {
			return ""
		}
		return ip.String()
	},
	"net/url.QueryEscape":   url.QueryEscape,
	"net/url.PathEscape":    url.PathEscape,
	"net/url.QueryUnescape": url.QueryUnescape,
	"path.Base":             path.Base,
	"path.Ext":              path.Ext,
	"path.Dir":              path.Dir,
	"path/filepath.Base":    filepath.Base,
	"path/filepath.Ext":     filepath.Ext,
	"path/filepath.Dir":     filepath.Dir,
	"path/filepath.Clean":   filepath.Clean,
	"path/filepath.IsAbs":   filepath.IsAbs,
	"bytes.Equal":           func(a, b string) bool { return bytes.Equal([]byte(a), []byte(b)) },
	"bytes.Contains":        func(a, b string) bool { return bytes.Contains([]byte(a), []byte(b)) },
	"bytes.HasPrefix":       func(a, b string) bool { return bytes.HasPrefix([]byte(a), []byte(b)) },
	"bytes.HasSuffix":       func(a, b string) bool { return bytes.HasSuffix([]byte(a), []byte(b)) },
	"bytes.IndexByte":       func(a string, c byte) int { return bytes.IndexByte([]byte(a), c) },
	"bytes.Index":           func(a, b string) int { return bytes.Index([]byte(a), []byte(b)) },
	"bytes.Count":           func(a, b string) int { return bytes.Count([]byte(a), []byte(b)) },
}

// byte-slice parameters / results of the real function are carried as Go strings by the adaptor
var pureBytesParams = map[string][]int{
	"strconv.AppendQuote":         {0},
	"strconv.AppendQuoteToASCII":  {0},
	"strconv.AppendInt":           {0},
	"encoding/hex.EncodeToString": {0},
	"bytes.Equal":                 {0, 1},
	"bytes.Contains":              {0, 1},
	"bytes.HasPrefix":             {0, 1},
	"bytes.HasSuffix":             {0, 1},
	"bytes.IndexByte":             {0},
	"bytes.Index":                 {0, 1},
	"bytes.Count":                 {0, 1},
}
var pureBytesResults = map[string][]int{
	"strconv.AppendQuote":        {0},
	"strconv.AppendQuoteToASCII": {0},
	"strconv.AppendInt":          {0},
	"encoding/hex.DecodeString": {0},
}

// the only float the target can observe is "did it parse"; the value is reported as 0/1
func pureParseFloatOK(s string, bits int) (int, error) {
	_, err := strconv.ParseFloat(s, bits)
	return 0, err
}

var errorType = reflect.TypeOf((*error)(nil)).Elem()

func hasInt(xs []int, i int) bool {
	for _, x := range xs {
		if x == i {
			return true
		}
	}
	return false
}

func pureName(name string, j int) string { return fmt.Sprintf("pure:%s#%d", name, j) }

func (e *Engine) pureIntrinsic(name string) intrinsic {
	f, ok := pureFuncs[name]
	if !ok {
		return nil
	}
	fv := reflect.ValueOf(f)
	ft := fv.Type()
	if name == "strconv.ParseFloat" || name == "net.ParseIP" {
		return nil // result types differ from the adaptor's; left unmodelled
	}
	return func(m *Machine, fr *frame, a0 []Value) Value {
		if len(a0) != ft.NumIn() {
			panic(abort("pure call " + name + ": arity"))
		}
		a := append([]Value{}, a0...)
		goArgs := make([]reflect.Value, len(a))
		allConst := true
		for i := range a {
			av := a[i]
			if hasInt(pureBytesParams[name], i) {
				sl, ok := av.(Slice)
				if !ok {
					panic(abort("pure call " + name + ": byte slice expected"))
				}
				if sl.rope == nil && sl.arr != nil {
					for k := 0; k < sl.len; k++ {
						if n, ok := (*sl.At(k)).(Num); !ok || n.t != nil {
							return realCode{} // symbolic bytes: the real code is executed instead
						}
					}
				}
				av = m.bytesToStr(sl)
			}
			a[i] = av
			v, ok := pureToGo(av, ft.In(i))
			if !ok {
				allConst = false
				continue
			}
			goArgs[i] = v
		}
		if allConst {
			outs := fv.Call(goArgs)
			return m.pureResults(name, ft, func(j int) (any, bool) { return outs[j].Interface(), true }, nil)
		}
		terms := make([]*Term, len(a))
		for i := range a {
			t, ok := pureArgTerm(a[i])
			if !ok {
				panic(abort("pure call " + name + ": unsupported symbolic argument"))
			}
			terms[i] = t
		}
		m.note("over-approximation: " + name + " on symbolic arguments is an uninterpreted function (counterexamples are made consistent with the native function and replayed)")
		return m.pureResults(name, ft, nil, terms)
	}
}

// bytesToStr: the content of a byte slice as a string value (rope view or concrete bytes).
func (m *Machine) bytesToStr(sl Slice) Value {
	if sl.rope != nil {
		return *sl.rope
	}
	if sl.arr == nil {
		return Str{}
	}
	bs := make([]byte, sl.len)
	for i := 0; i < sl.len; i++ {
		n, ok := (*sl.At(i)).(Num)
		if !ok || n.t != nil {
			panic(abort("pure call on a byte slice with symbolic elements"))
		}
		bs[i] = byte(n.c)
	}
	return mkStr(string(bs))
}

func pureToGo(v Value, t reflect.Type) (reflect.Value, bool) {
	switch t.Kind() {
	case reflect.String:
		if s, ok := v.(Str); ok {
			if c, ok := s.Const(); ok {
				return reflect.ValueOf(c).Convert(t), true
			}
		}
	case reflect.Bool:
		if b, ok := v.(bool); ok {
			return reflect.ValueOf(b), true
		}
		if bt, ok := v.(*Term); ok && bt.kind == KConst {
			return reflect.ValueOf(bt.b), true
		}
	case reflect.Int, reflect.Int8, reflect.Int16, reflect.Int32, reflect.Int64:
		if n, ok := v.(Num); ok && n.t == nil {
			return reflect.ValueOf(n.c).Convert(t), true
		}
	case reflect.Uint, reflect.Uint8, reflect.Uint16, reflect.Uint32, reflect.Uint64:
		if n, ok := v.(Num); ok && n.t == nil {
			return reflect.ValueOf(uint64(n.c)).Convert(t), true
		}
	}
	return reflect.Value{}, false
}

func pureArgTerm(v Value) (*Term, bool) {
	switch x := v.(type) {
	case Str:
		if x.b != nil {
			return nil, false
		}
		return x.Term(), true
	case Num:
		if x.t == nil {
			return TInt(x.c), true
		}
		return bvToInt(x.t), true
	case bool:
		return TBool(x), true
	case *Term:
		return x, true
	}
	return nil, false
}

// pureResults builds the engine values of the results, either from native values (get) or as
// uninterpreted functions of the argument terms.
func (m *Machine) pureResults(name string, ft reflect.Type, get func(j int) (any, bool), terms []*Term) Value {
	outs := make([]Value, ft.NumOut())
	for j := 0; j < ft.NumOut(); j++ {
		ot := ft.Out(j)
		var nat any
		if get != nil {
			nat, _ = get(j)
		}
		switch {
		case ot == errorType:
			if get != nil {
				if nat == nil {
					outs[j] = Iface{}
				} else {
					outs[j] = m.newError(mkStr(nat.(error).Error()))
				}
				continue
			}
			if m.branch(TUF(fmt.Sprintf("pure:%s#err", name), SBool, terms...)) {
				outs[j] = m.newError(mkStrT(TUF(fmt.Sprintf("pure:%s#errmsg", name), SStr, terms...)))
			} else {
				outs[j] = Iface{}
			}
		case ot.Kind() == reflect.String:
			var s Str
			if get != nil {
				s = mkStr(reflect.ValueOf(nat).String())
			} else {
				s = mkStrT(TUF(pureName(name, j), SStr, terms...))
			}
			if hasInt(pureBytesResults[name], j) {
				c, ok := s.Const()
				if !ok {
					rs := s
					outs[j] = Slice{rope: &rs}
				} else {
					arr := make([]Value, len(c))
					for i := range arr {
						arr[i] = Num{c: int64(c[i])}
					}
					outs[j] = Slice{arr: &arr, len: len(arr), cap: len(arr)}
				}
				continue
			}
			outs[j] = s
		case ot.Kind() == reflect.Bool:
			if get != nil {
				outs[j] = nat.(bool)
			} else {
				outs[j] = TUF(pureName(name, j), SBool, terms...)
			}
		case ot.Kind() >= reflect.Int && ot.Kind() <= reflect.Int64:
			if get != nil {
				outs[j] = Num{c: reflect.ValueOf(nat).Int()}
			} else {
				outs[j] = Num{t: TUF(pureName(name, j), SInt, terms...)}
			}
		case ot.Kind() >= reflect.Uint && ot.Kind() <= reflect.Uint64:
			if get != nil {
				outs[j] = Num{c: int64(reflect.ValueOf(nat).Uint())}
			} else {
				u := TUF(pureName(name, j), SInt, terms...)
				m.addPC(TCmp(">=", u, TInt(0)))
				outs[j] = Num{t: u}
			}
		default:
			panic(abort("pure call " + name + ": unsupported result type " + ot.String()))
		}
	}
	if len(outs) == 1 {
		return outs[0]
	}
	return Tuple(outs)
}

// evalPureUF: native interpretation of a "pure:" symbol on model values.
func evalPureUF(op string, args []any) (any, bool) {
	if !strings.HasPrefix(op, "pure:") {
		return nil, false
	}
	h := strings.LastIndexByte(op, '#')
	if h < 0 {
		return nil, false
	}
	name, sel := op[5:h], op[h+1:]
	f, ok := pureFuncs[name]
	if !ok {
		return nil, false
	}
	fv := reflect.ValueOf(f)
	ft := fv.Type()
	if len(args) != ft.NumIn() {
		return nil, false
	}
	in := make([]reflect.Value, len(args))
	for i, a := range args {
		t := ft.In(i)
		switch x := a.(type) {
		case string:
			if t.Kind() != reflect.String {
				return nil, false
			}
			in[i] = reflect.ValueOf(x).Convert(t)
		case int64:
			switch {
			case t.Kind() >= reflect.Int && t.Kind() <= reflect.Int64:
				in[i] = reflect.ValueOf(x).Convert(t)
			case t.Kind() >= reflect.Uint && t.Kind() <= reflect.Uint64:
				in[i] = reflect.ValueOf(uint64(x)).Convert(t)
			default:
				return nil, false
			}
		case uint64:
			switch {
			case t.Kind() >= reflect.Int && t.Kind() <= reflect.Int64:
				in[i] = reflect.ValueOf(int64(x)).Convert(t)
			case t.Kind() >= reflect.Uint && t.Kind() <= reflect.Uint64:
				in[i] = reflect.ValueOf(x).Convert(t)
			default:
				return nil, false
			}
		case bool:
			if t.Kind() != reflect.Bool {
				return nil, false
			}
			in[i] = reflect.ValueOf(x)
		default:
			return nil, false
		}
	}
	var outs []reflect.Value
	func() {
		defer func() {
			if recover() != nil {
				outs = nil
			}
		}()
		outs = fv.Call(in)
	}()
	if outs == nil {
		return nil, false
	}
	errIdx := -1
	for j := 0; j < ft.NumOut(); j++ {
		if ft.Out(j) == errorType {
			errIdx = j
		}
	}
	switch sel {
	case "err":
		if errIdx < 0 {
			return nil, false
		}
		return !outs[errIdx].IsNil(), true
	case "errmsg":
		if errIdx < 0 || outs[errIdx].IsNil() {
			return "", true
		}
		return outs[errIdx].Interface().(error).Error(), true
	}
	j, err := strconv.Atoi(sel)
	if err != nil || j < 0 || j >= len(outs) {
		return nil, false
	}
	o := outs[j]
	switch {
	case o.Kind() == reflect.String:
		return o.String(), true
	case o.Kind() == reflect.Bool:
		return o.Bool(), true
	case o.Kind() >= reflect.Int && o.Kind() <= reflect.Int64:
		return o.Int(), true
	case o.Kind() >= reflect.Uint && o.Kind() <= reflect.Uint64:
		return int64(o.Uint()), true
	}
	return nil, false
}

// pureLemmas: for every application of a "pure:" symbol in q, the native value at the model's
// argument values, as an implication (args = values => app = native value).
func pureLemmas(mod *Model, q []*Term) []*Term {
	var out []*Term
	apps := subterms(q, func(t *Term) bool { return t.kind == KApp && t.uf && refinableUF(t.op) })
	for _, u := range apps {
		var conds []*Term
		var vals []any
		ok := true
		for _, a := range u.args {
			v, err := mod.Eval(a)
			if err != nil {
				ok = false
				break
			}
			vals = append(vals, v)
			c := constTermOf(v, a.sort)
			if c == nil {
				ok = false
				break
			}
			conds = append(conds, TEq(a, c))
		}
		if !ok {
			continue
		}
		var nat any
		if strings.HasPrefix(u.op, "pure:") {
			nat, ok = evalPureUF(u.op, vals)
		} else if mod.UF != nil {
			nat, ok = mod.UF(u.op, vals)
		} else {
			ok = false
		}
		if !ok {
			continue
		}
		nc := constTermOf(nat, u.sort)
		if nc == nil {
			continue
		}
		out = append(out, TImplies(TAnd(conds...), TEq(u, nc)))
	}
	return out
}

// trickyStrings: values on which library functions typically disagree with each other (quoting,
// escaping, case folding, UTF-8 handling). Used as candidate witnesses for string atoms that flow
// into uninterpreted library functions; every candidate is checked by the solver and natively.
var trickyStrings = []string{"\x1b[0m", "\x00", "a\x7fb", "<&>", "é", "\\", "\"", "İ", "a b", "\u2028", " ", "%41", "A", "-1", "+1", "1e3", "0x10", "08", "a.b", "a,b", "(", "\xff"}

// refinableUF: uninterpreted symbols with a native interpretation that the refinement loop may
// pin down pointwise (library stand-ins and the JSON string serialiser).
func refinableUF(op string) bool {
	return strings.HasPrefix(op, "pure:") || op == "jstr" || op == "tolower" || op == "itoa"
}

type candidate struct {
	a *Term
	v string
}

func trickyCandidates(q []*Term) []candidate {
	var out []candidate
	seen := map[*Term]bool{}
	var atoms []*Term
	for _, u := range subterms(q, func(t *Term) bool { return t.kind == KApp && t.uf && refinableUF(t.op) }) {
		for a := range u.Atoms() {
			if a.sort == SStr && !seen[a] {
				seen[a] = true
				atoms = append(atoms, a)
			}
		}
	}
	// atoms that flow into library stand-ins other than the JSON serialiser first
	prio := map[*Term]bool{}
	for _, u := range subterms(q, func(t *Term) bool { return t.kind == KApp && t.uf && refinableUF(t.op) && t.op != "jstr" }) {
		for a := range u.Atoms() {
			prio[a] = true
		}
	}
	sort.Slice(atoms, func(i, j int) bool {
		if prio[atoms[i]] != prio[atoms[j]] {
			return prio[atoms[i]]
		}
		return atoms[i].id < atoms[j].id
	})
	for _, v := range trickyStrings {
		for _, a := range atoms {
			out = append(out, candidate{a, v})
		}
	}
	return out
}

// candidateLemmas: with atom a pinned to value v, the native values of the refinable symbols whose
// arguments mention no other variable.
func candidateLemmas(e *Engine, q []*Term, a *Term, v string) []*Term {
	var out []*Term
	mod := &Model{Str: map[string]string{a.op: v}, Int: map[string]int64{}, Bool: map[string]bool{}, UF: e.evalUF}
	for _, u := range subterms(q, func(t *Term) bool { return t.kind == KApp && t.uf && refinableUF(t.op) }) {
		only := true
		for x := range u.Atoms() {
			if x != a {
				only = false
			}
		}
		if !only {
			continue
		}
		if nat, err := mod.Eval(u); err == nil {
			if c := constTermOf(nat, u.sort); c != nil {
				out = append(out, TEq(u, c))
			}
		}
	}
	return out
}

func constTermOf(v any, s Sort) *Term {
	switch x := v.(type) {
	case string:
		if s == SStr {
			return TStr(x)
		}
	case bool:
		if s == SBool {
			return TBool(x)
		}
	case int64:
		if s == SInt {
			return TInt(x)
		}
		if s != SStr && s != SBool {
			return TBV(bvWidth(s), uint64(x))
		}
	case uint64:
		if s == SInt {
			return TInt(int64(x))
		}
		if s != SStr && s != SBool {
			return TBV(bvWidth(s), x)
		}
	}
	return nil
}

// axioms used only when a concrete witness is searched (they slow feasibility queries down and
// are not needed for soundness: without them the function is merely less constrained)
var pureModelAxioms = map[string]func(u *Term) []*Term{}

func pureAxiomInstances(q []*Term) []*Term {
	var out []*Term
	done := map[string]bool{}
	for _, u := range subterms(q, func(t *Term) bool { return t.kind == KApp && t.uf && strings.HasPrefix(t.op, "pure:") }) {
		if a, ok := pureModelAxioms[ufBase(u.op)]; ok {
			key := ufBase(u.op)
			for _, x := range u.args {
				key += fmt.Sprintf(",%d", x.id)
			}
			if !done[key] {
				done[key] = true
				out = append(out, a(u)...)
			}
		}
	}
	return out
}

func init() {
	// instance axioms for the most common helpers (sharpen the over-approximation)
	cut := func(u *Term) []*Term {
		s, sep := u.args[0], u.args[1]
		before := TUF("pure:strings.Cut#0", SStr, u.args...)
		after := TUF("pure:strings.Cut#1", SStr, u.args...)
		found := TUF("pure:strings.Cut#2", SBool, u.args...)
		return []*Term{
			TEq(found, TContains(s, sep)),
			TImplies(found, TAnd(TEq(s, TConcat(before, sep, after)))),
			TImplies(TNot(found), TAnd(TEq(before, s), TEq(after, TStr("")))),
		}
	}
	pureModelAxioms["pure:strings.Cut"] = cut
	// an invalid pattern contains a metacharacter; the error text quotes the pattern
	pureModelAxioms["pure:regexp.compileErr"] = func(u *Term) []*Term {
		var meta []*Term
		for _, c := range []string{"(", ")", "[", "\\", "*", "+", "?", "{"} {
			meta = append(meta, TContains(u.args[0], TStr(c)))
		}
		return []*Term{TImplies(TNot(TEq(u, TStr(""))), TAnd(TOr(meta...), TContains(u, u.args[0])))}
	}
	// definitional hints for witness search only (every witness is validated natively afterwards)
	pureModelAxioms["pure:strings.ContainsAny"] = func(u *Term) []*Term {
		if u.args[1].kind != KConst {
			return nil
		}
		var alts []*Term
		for _, r := range u.args[1].s {
			alts = append(alts, TContains(u.args[0], TStr(string(r))))
		}
		return []*Term{TEq(u, TOr(alts...))}
	}
	pureModelAxioms["pure:strings.ContainsRune"] = func(u *Term) []*Term {
		if u.args[1].kind != KConst {
			return nil
		}
		return []*Term{TEq(u, TContains(u.args[0], TStr(string(rune(u.args[1].i)))))}
	}
	pureModelAxioms["pure:strings.IndexByte"] = func(u *Term) []*Term {
		if u.args[1].kind != KConst {
			return nil
		}
		return []*Term{TEq(u, TIndexOf(u.args[0], TStr(string(rune(u.args[1].i))), TInt(0)))}
	}
	pureModelAxioms["pure:strings.IndexRune"] = pureModelAxioms["pure:strings.IndexByte"]
	pureModelAxioms["pure:strings.Count"] = func(u *Term) []*Term {
		return []*Term{TEq(TCmp(">", u, TInt(0)), TContains(u.args[0], u.args[1])), TCmp(">=", u, TInt(0))}
	}
	intRL := `(re.++ (re.opt (re.union (str.to_re "+") (str.to_re "-"))) ((_ re.loop 1 18) (re.range "0" "9")))`
	atoi := func(u *Term) []*Term {
		if !strings.HasSuffix(u.op, "#err") {
			return nil
		}
		anyInt := `(re.++ (re.opt (re.union (str.to_re "+") (str.to_re "-"))) (re.+ (re.range "0" "9")))`
		return []*Term{TImplies(TInRe(u.args[0], intRL), TNot(u)), TImplies(TNot(TInRe(u.args[0], anyInt)), u)}
	}
	pureModelAxioms["pure:strconv.Atoi"] = atoi
	pureModelAxioms["pure:encoding/hex.DecodeString"] = func(u *Term) []*Term {
		if !strings.HasSuffix(u.op, "#err") {
			return nil
		}
		hexRL := `(re.* (re.++ (re.union (re.range "0" "9") (re.range "a" "f") (re.range "A" "F")) (re.union (re.range "0" "9") (re.range "a" "f") (re.range "A" "F"))))`
		return []*Term{TEq(u, TNot(TInRe(u.args[0], hexRL)))}
	}
	for _, nm := range []string{"unicode.IsDigit", "unicode.IsNumber"} {
		pureModelAxioms["pure:"+nm] = func(u *Term) []*Term {
			return []*Term{TImplies(TCmp("<", u.args[0], TInt(128)), TEq(u, TAnd(TCmp(">=", u.args[0], TInt(48)), TCmp("<=", u.args[0], TInt(57)))))}
		}
	}
	ufAxioms["pure:strings.TrimSuffix"] = func(u *Term) []*Term {
		s, suf := u.args[0], u.args[1]
		return []*Term{TIte(TSuffixOf(suf, s), TEq(s, TConcat(u, suf)), TEq(u, s))}
	}
	ufAxioms["pure:strings.CutPrefix"] = func(u *Term) []*Term {
		s, p := u.args[0], u.args[1]
		after := TUF("pure:strings.CutPrefix#0", SStr, u.args...)
		found := TUF("pure:strings.CutPrefix#1", SBool, u.args...)
		return []*Term{TEq(found, TPrefixOf(p, s)), TIte(found, TEq(s, TConcat(p, after)), TEq(after, s))}
	}
	ufAxioms["pure:strings.CutSuffix"] = func(u *Term) []*Term {
		s, p := u.args[0], u.args[1]
		before := TUF("pure:strings.CutSuffix#0", SStr, u.args...)
		found := TUF("pure:strings.CutSuffix#1", SBool, u.args...)
		return []*Term{TEq(found, TSuffixOf(p, s)), TIte(found, TEq(s, TConcat(before, p)), TEq(before, s))}
	}
	ufAxioms["pure:strconv.Itoa"] = func(u *Term) []*Term {
		return []*Term{TCmp(">=", TLen(u), TInt(1))}
	}
	ufAxioms["pure:encoding/hex.DecodeString"] = func(u *Term) []*Term {
		if !strings.HasSuffix(u.op, "#err") {
			return nil
		}
		// an odd length is always an error
		return []*Term{TImplies(TEq(TIntOp("mod", TLen(u.args[0]), TInt(2)), TInt(1)), u)}
	}
}
