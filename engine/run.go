package main

import (
	"fmt"
	"go/types"
	"os"
	"runtime/debug"
	"sort"
	"strings"
	"sync"
	"sync/atomic"
	"time"

	"golang.org/x/tools/go/packages"
	"golang.org/x/tools/go/ssa"
	"golang.org/x/tools/go/ssa/ssautil"
)

var initNanos, initSteps int64

// ---------- loading ----------

type LoadConfig struct {
	RepoDir   string            // /repo
	Overlay   map[string]string // virtual path -> real file
	GoBinPath string            // directory of the go driver toolchain (prepended to PATH)
}

func LoadEngine(lc LoadConfig) (*Engine, error) {
	env := os.Environ()
	if lc.GoBinPath != "" {
		for i, e := range env {
			if strings.HasPrefix(e, "PATH=") {
				env[i] = "PATH=" + lc.GoBinPath + ":" + e[5:]
			}
		}
	}
	env = append(env, "GOFLAGS=-mod=mod", "GOPROXY=off", "GOTOOLCHAIN=local", "CGO_ENABLED=0")
	overlay := map[string][]byte{}
	for virt, real := range lc.Overlay {
		b, err := os.ReadFile(real)
		if err != nil {
			return nil, err
		}
		overlay[virt] = b
	}
	cfg := &packages.Config{
		Mode:       packages.LoadAllSyntax,
		Dir:        lc.RepoDir + "/src",
		BuildFlags: []string{"-tags=verif"},
		Env:        env,
		Overlay:    overlay,
	}
	pkgs, err := packages.Load(cfg, ".")
	if err != nil {
		return nil, err
	}
	var errs []string
	packages.Visit(pkgs, nil, func(p *packages.Package) {
		for _, e := range p.Errors {
			errs = append(errs, e.Error())
		}
	})
	if len(errs) > 0 {
		return nil, fmt.Errorf("load errors:\n%s", strings.Join(errs, "\n"))
	}
	prog, spkgs := ssautil.AllPackages(pkgs, ssa.InstantiateGenerics)
	prog.Build()
	e := &Engine{prog: prog, mainPkg: spkgs[0], intrinsics: map[string]intrinsic{}, opaqueMethods: map[string]intrinsic{}, coverage: map[*ssa.BasicBlock]struct{}{}}
	if rt := prog.ImportedPackage("runtime"); rt != nil {
		e.runtimeErrType = rt.Type("errorString").Object().Type()
	}
	e.typesByName = map[string]types.Type{}
	mainPath = e.mainPkg.Pkg.Path()
	allowedPkgs[mainPath] = true
	initPkgs[mainPath] = true
	summarisable[mainPath+".IsEmail"] = true
	e.computeVocab()
	registerIntrinsics(e)
	return e, nil
}

func (e *Engine) namedType(pkgPath, name string) types.Type {
	key := pkgPath + "." + name
	e.covMu.Lock()
	defer e.covMu.Unlock()
	if t, ok := e.typesByName[key]; ok {
		return t
	}
	p := e.prog.ImportedPackage(pkgPath)
	if p == nil {
		panic("package not loaded: " + pkgPath)
	}
	t := p.Type(name).Object().Type()
	e.typesByName[key] = t
	return t
}

// ---------- jobs and path exploration ----------

type Job struct {
	Name    string
	Harness string               // function in package main
	Lines   map[string]*Template // templates bound to verifLine names
	Params  map[string]string    // free-form parameters readable via verifParam
	MaxPaths int

	mbMu    sync.Mutex
	mbCount map[string]int
	mbRefund map[string]int

	NoNative bool            // harness cannot be replayed in-process (it runs main()); its obligations are evaluated and replayed by the property's Post hook
	cutSet   map[string]bool // functions observed as events (not executed)
	snapshot []string        // globals recorded at every cut call
}

// modelBudget: witnesses are searched for the first instances of a violated obligation only.
func (j *Job) modelBudget(id string) bool {
	j.mbMu.Lock()
	defer j.mbMu.Unlock()
	if j.mbCount == nil {
		j.mbCount = map[string]int{}
	}
	j.mbCount[id]++
	if j.mbCount[id] > 3+j.mbRefund[id] {
		return false
	}
	// a violation that shows on every template is witnessed on the first sites only (the other
	// sites are counted as further instances): keeps a badly broken tree from taking hours
	n, _ := globalModelBudget.LoadOrStore(id, new(int64))
	if atomic.AddInt64(n.(*int64), 1) > 60 {
		return false
	}
	return modelAttempt(id)
}

// modelAttempt: hard cap on witness searches per obligation kind in one check run (refunds and
// second passes included).
func modelAttempt(id string) bool {
	a, _ := globalModelAttempts.LoadOrStore(id, new(int64))
	return atomic.AddInt64(a.(*int64), 1) <= 150
}

var globalModelAttempts sync.Map

var globalModelBudget sync.Map

// modelRefund: a witness search that produced no natively valid model does not use up the budget
// (up to 9 extra attempts per obligation and job), so that later instances are still searched.
func (j *Job) modelRefund(id string) {
	j.mbMu.Lock()
	defer j.mbMu.Unlock()
	if j.mbRefund == nil {
		j.mbRefund = map[string]int{}
	}
	if j.mbRefund[id] < 9 {
		j.mbRefund[id]++
		if n, ok := globalModelBudget.Load(id); ok {
			atomic.AddInt64(n.(*int64), -1)
		}
	}
}

type PathResult struct {
	Trail       []int
	End         string // "done" | "exit" | "abort" | "infeasible" | "panic"
	Msg         string
	Obligations []Obligation
	Reached     map[string]bool
	Steps       int
	Decided     int
	UnknownFeas int
	PC          []*Term
	Inputs      map[string]Value
	InputOrder  []string
	Events      []Event
	Notes       []string
	OrderNondet bool
	Fresh       map[*Term]bool
	Prefs       map[*Term]string
	EndModel    *Model
}

type JobResult struct {
	Job      *Job
	Paths    []*PathResult
	Wall     time.Duration
	Truncated bool
}

func (e *Engine) newMachine(job *Job, trail []int, solver *Solver) *Machine {
	return &Machine{
		eng: e, prog: e.prog, solver: solver,
		globals:  map[*ssa.Global]*Value{},
		maxSteps: 20_000_000, maxDepth: 400,
		pcSet: map[*Term]bool{}, trail: append([]int{}, trail...),
		freshAtoms: map[*Term]bool{}, covered: map[*ssa.BasicBlock]struct{}{},
		reached: map[string]bool{}, job: job, rng: map[string]int{},
		inputs: map[string]Value{}, prefs: map[*Term]string{},
	}
}

// runPath executes the harness once following trail.
func (e *Engine) runPath(job *Job, trail []int, solver *Solver) (res *PathResult, pending [][]int) {
	m := e.newMachine(job, trail, solver)
	res = &PathResult{}
	func() {
		defer func() {
			r := recover()
			switch r := r.(type) {
			case nil:
				res.End = "done"
			case pathEnd:
				res.End = r.kind
				res.Msg = r.msg
				if r.kind == "exit" {
					res.Msg = show(r.code)
				}
			case targetPanic:
				res.End = "panic"
				if r.runtime != "" {
					res.Msg = "runtime error: " + r.runtime + " @ " + r.pos
				} else {
					res.Msg = "panic: " + m.panicText(r.v) + " @ " + r.pos
				}
			default:
				res.End = "abort"
				res.Msg = fmt.Sprintf("engine error: %v\n%s", r, debug.Stack())
			}
		}()
		initFn := e.mainPkg.Func("init")
		ti := time.Now()
		m.callSSA(nil, 0, initFn, nil, nil)
		atomic.AddInt64(&initNanos, int64(time.Since(ti)))
		atomic.AddInt64(&initSteps, int64(m.steps))
		h := e.mainPkg.Func(job.Harness)
		if h == nil {
			panic(abort("no harness function " + job.Harness))
		}
		m.callSSA(nil, 0, h, nil, nil)
	}()
	if res.End == "panic" {
		// implicit obligation: the harness must not panic
		ob := Obligation{ID: "implicit/no-panic", Result: "violated", Details: res.Msg, Trail: append([]int{}, m.trail...)}
		if r, mod := m.solver.Check(m.pc, true); r == Sat {
			ob.Model = mod
		}
		m.obligations = append(m.obligations, ob)
	}
	res.Trail = append([]int{}, m.trail...)
	res.Obligations = m.obligations
	res.Reached = m.reached
	res.Steps = m.steps
	res.Decided = m.decided
	res.UnknownFeas = m.unknownFeas
	res.PC = m.pc
	res.Inputs = m.inputs
	res.InputOrder = m.inputOrder
	res.Events = m.events
	res.Notes = m.notes
	res.OrderNondet = m.orderNondet
	res.Fresh = m.freshAtoms
	res.Prefs = m.prefs
	e.covMu.Lock()
	for b := range m.covered {
		e.coverage[b] = struct{}{}
	}
	e.covMu.Unlock()
	return res, m.pending
}

func (m *Machine) panicText(v Value) string {
	if itf, ok := v.(Iface); ok {
		if s, ok := itf.v.(Str); ok {
			return s.String()
		}
		if itf.t != nil {
			return fmt.Sprintf("(%v) %s", itf.t, show(itf.v))
		}
	}
	return show(v)
}

// RunJob explores all paths of the job's harness (DFS over decision trails).
func (e *Engine) RunJob(job *Job, workers int) *JobResult {
	t0 := time.Now()
	if workers < 1 {
		workers = 1
	}
	maxPaths := job.MaxPaths
	if maxPaths == 0 {
		maxPaths = 200000
	}
	var mu sync.Mutex
	cond := sync.NewCond(&mu)
	work := [][]int{{}}
	active := 0
	jr := &JobResult{Job: job}
	var spent time.Duration // cumulative path-execution time of this job (all workers)
	var wg sync.WaitGroup
	for w := 0; w < workers; w++ {
		wg.Add(1)
		go func() {
			defer wg.Done()
			for {
				mu.Lock()
				for len(work) == 0 && active > 0 {
					cond.Wait()
				}
				if len(work) == 0 && active == 0 {
					mu.Unlock()
					cond.Broadcast()
					return
				}
				if len(jr.Paths) >= maxPaths || (jobTimeLimit > 0 && spent > jobTimeLimit) {
					jr.Truncated = true
					work = nil
					mu.Unlock()
					cond.Broadcast()
					return
				}
				t := work[len(work)-1]
				work = work[:len(work)-1]
				active++
				mu.Unlock()
				solver := acquireSolver()
				tp := time.Now()
				res, pend := e.runPath(job, t, solver)
				dt := time.Since(tp)
				releaseSolver(solver)
				mu.Lock()
				spent += dt
				active--
				jr.Paths = append(jr.Paths, res)
				work = append(work, pend...)
				mu.Unlock()
				cond.Broadcast()
			}
		}()
	}
	wg.Wait()
	sort.Slice(jr.Paths, func(i, j int) bool { return trailLess(jr.Paths[i].Trail, jr.Paths[j].Trail) })
	e.lateWitnesses(jr)
	jr.Wall = time.Since(t0)
	return jr
}

// lateWitnesses: an obligation kind that is violated on some paths but has no natively valid
// witness yet (the first searches were fruitless and the others were skipped for the budget): search
// a spread of the skipped instances, one after the other, until one yields a valid model.
func (e *Engine) lateWitnesses(jr *JobResult) {
	type ref struct {
		p  *PathResult
		oi int
	}
	skipped := map[string][]ref{}
	have := map[string]bool{}
	for _, p := range jr.Paths {
		for oi := range p.Obligations {
			ob := &p.Obligations[oi]
			if ob.Result != "violated" {
				continue
			}
			if ob.Model != nil && ob.Q == nil {
				have[ob.ID] = true
			}
			if ob.Q != nil {
				skipped[ob.ID] = append(skipped[ob.ID], ref{p, oi})
			}
		}
	}
	var solver *Solver
	for id, refs := range skipped {
		if have[id] {
			continue
		}
		if solver == nil {
			solver = acquireSolver()
			defer releaseSolver(solver)
		}
		step := len(refs)/12 + 1
		for k := 0; k < len(refs); k += step {
			r := refs[k]
			ob := &r.p.Obligations[r.oi]
			if !modelAttempt(id) {
				break
			}
			if res, mod := checkModelWith(solver, e, r.p.Fresh, r.p.Prefs, ob.Q); res == Sat && mod != nil && modelValid(mod, ob.Q) {
				ob.Model = mod
				ob.Details = "witness found in the second pass"
				break
			}
		}
	}
	for _, p := range jr.Paths {
		for oi := range p.Obligations {
			p.Obligations[oi].Q = nil
		}
	}
}

// Global pool of solver instances: one token per core. Jobs run concurrently and share
// the pool at path granularity, so a heavy job absorbs the capacity light jobs leave idle.
var (
	solverPool     chan *Solver
	solverPoolOnce sync.Once
)

const poolSize = 16

func acquireSolver() *Solver {
	solverPoolOnce.Do(func() {
		solverPool = make(chan *Solver, poolSize)
		for i := 0; i < poolSize; i++ {
			solverPool <- NewSolver()
		}
	})
	return <-solverPool
}

func releaseSolver(s *Solver) { solverPool <- s }

// jobTimeLimit: budget of cumulative path-execution time per job (summed over workers); a job that exceeds it is reported truncated
// (its unexplored paths count as inconclusive, never as success).
var jobTimeLimit = 600 * time.Second

func trailLess(a, b []int) bool {
	for i := 0; i < len(a) && i < len(b); i++ {
		if a[i] != b[i] {
			return a[i] < b[i]
		}
	}
	return len(a) < len(b)
}
