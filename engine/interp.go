package main

import (
	"fmt"
	"go/constant"
	"go/token"
	"go/types"
	"strings"

	"golang.org/x/tools/go/ssa"
)

// ---------- path termination signals ----------

type pathEnd struct {
	kind string // "abort" (inconclusive), "exit" (os.Exit), "infeasible" (assumption false)
	msg  string
	code Value
}

func abort(msg string) pathEnd { return pathEnd{kind: "abort", msg: msg} }

// targetPanic is a panic of the program under analysis.
type targetPanic struct {
	v       Value  // interface value passed to panic
	runtime string // non-empty for runtime errors (nil deref, index, type assertion)
	pos     string
}

type deferred struct {
	fn   Value
	args []Value
	tail *deferred
}

type frame struct {
	m         *Machine
	caller    *frame
	fn        *ssa.Function
	block     *ssa.BasicBlock
	prevBlock *ssa.BasicBlock
	env       map[ssa.Value]Value
	locals    []Value
	defers    *deferred
	result    Value
	panicking bool
	panic     any
	phitemps  []Value
	lenForks  map[*ssa.If]int // per activation: evaluations of a branch on the length of a symbolic string
}

func (fr *frame) get(key ssa.Value) Value {
	switch key := key.(type) {
	case nil:
		return nil
	case *ssa.Function, *ssa.Builtin:
		return key
	case *ssa.Const:
		return constValue(key)
	case *ssa.Global:
		return fr.m.global(key)
	}
	if r, ok := fr.env[key]; ok {
		return r
	}
	panic(fmt.Sprintf("get: no value for %T: %v in %s", key, key.Name(), fr.fn))
}

func constValue(c *ssa.Const) Value {
	if c.Value == nil {
		return zero(c.Type())
	}
	if t, ok := c.Type().Underlying().(*types.Basic); ok {
		switch {
		case t.Info()&types.IsBoolean != 0:
			return constant.BoolVal(c.Value)
		case t.Info()&types.IsInteger != 0:
			if t.Info()&types.IsUnsigned != 0 {
				u, _ := constant.Uint64Val(constant.ToInt(c.Value))
				return Num{c: int64(u)}
			}
			i, _ := constant.Int64Val(constant.ToInt(c.Value))
			return Num{c: i}
		case t.Info()&types.IsFloat != 0:
			f, _ := constant.Float64Val(c.Value)
			return f
		case t.Info()&types.IsString != 0:
			if c.Value.Kind() == constant.String {
				return mkStr(constant.StringVal(c.Value))
			}
			// string(rune const)
			i, _ := constant.Int64Val(constant.ToInt(c.Value))
			return mkStr(string(rune(i)))
		case t.Info()&types.IsComplex != 0:
			return complex128(0)
		}
	}
	panic(abort(fmt.Sprintf("constValue: unsupported %v", c)))
}

func (m *Machine) pos(p token.Pos) string {
	if p == token.NoPos {
		return ""
	}
	pp := m.prog.Fset.Position(p)
	return fmt.Sprintf("%s:%d", shortFile(pp.Filename), pp.Line)
}

func shortFile(f string) string {
	if i := strings.LastIndex(f, "/"); i >= 0 {
		return f[i+1:]
	}
	return f
}

func (fr *frame) rtPanic(instr ssa.Instruction, msg string) {
	panic(targetPanic{runtime: msg, pos: fr.fn.String() + " " + fr.m.pos(instr.Pos())})
}

// ---------- calls ----------

func (fr *frame) prepareCall(call *ssa.CallCommon, instr ssa.Instruction) (fn Value, args []Value) {
	v := fr.get(call.Value)
	if call.Method == nil {
		fn = v
	} else {
		recv, ok := v.(Iface)
		if !ok {
			panic(abort(fmt.Sprintf("invoke on non-interface %T at %s", v, fr.m.pos(instr.Pos()))))
		}
		if recv.t == nil {
			fr.rtPanic(instr, "invalid memory address or nil pointer dereference (method call on nil interface)")
		}
		if o, ok := recv.v.(*Opaque); ok && o != nil {
			if im := fr.m.eng.opaqueMethods[o.kind+"."+call.Method.Name()]; im != nil {
				args = append(args, recv.v)
				for _, a := range call.Args {
					args = append(args, fr.get(a))
				}
				return opaqueCall{im}, args
			}
		}
		f := fr.m.prog.LookupMethod(recv.t, call.Method.Pkg(), call.Method.Name())
		if f == nil {
			panic(abort(fmt.Sprintf("no method %s for dynamic type %v", call.Method.Name(), recv.t)))
		}
		fn = f
		args = append(args, recv.v)
	}
	for _, a := range call.Args {
		args = append(args, fr.get(a))
	}
	return
}

func (m *Machine) call(caller *frame, pos token.Pos, fn Value, args []Value) Value {
	switch fn := fn.(type) {
	case *ssa.Function:
		if fn == nil {
			panic(targetPanic{runtime: "call of nil function", pos: m.pos(pos)})
		}
		return m.callSSA(caller, pos, fn, args, nil)
	case *Closure:
		return m.callSSA(caller, pos, fn.Fn, args, fn.Env)
	case *ssa.Builtin:
		return m.callBuiltin(caller, pos, fn, args)
	case opaqueCall:
		return fn.in(m, caller, args)
	}
	panic(abort(fmt.Sprintf("cannot call %T", fn)))
}

// realCode: returned by an intrinsic that declines a call (the real body is executed).
type realCode struct{}

func (m *Machine) callSSA(caller *frame, pos token.Pos, fn *ssa.Function, args []Value, env []Value) Value {
	if fn.Parent() == nil || fn.Synthetic == "" {
		if in := m.eng.intrinsicFor(fn); in != nil {
			if r := in(m, caller, args); r != (realCode{}) {
				return r
			}
		}
	}
	if fn.Pkg == m.eng.mainPkg || (fn.Signature.Recv() != nil && fn.Pkg == nil) {
		if r, ok := m.cutCall(fn, args); ok {
			return r
		}
	}
	if fn.Blocks == nil {
		panic(abort("no body for function " + fn.String()))
	}
	if !m.eng.allowed(fn) {
		panic(abort("unmodelled call " + fn.String() + " at " + m.pos(pos)))
	}
	if !m.inSummary && summarisable[fn.String()] {
		if v, ok := m.summarise(caller, pos, fn, args, env); ok {
			return v
		}
	}
	m.depth++
	if m.depth > m.maxDepth {
		panic(abort("call depth limit"))
	}
	defer func() { m.depth-- }()
	fr := &frame{m: m, caller: caller, fn: fn}
	fr.env = make(map[ssa.Value]Value, 16)
	fr.block = fn.Blocks[0]
	fr.locals = make([]Value, len(fn.Locals))
	for i, l := range fn.Locals {
		fr.locals[i] = zero(deref(l.Type()))
		fr.env[l] = &fr.locals[i]
	}
	for i, p := range fn.Params {
		fr.env[p] = args[i]
	}
	for i, fv := range fn.FreeVars {
		fr.env[fv] = env[i]
	}
	m.cover(fn, fr.block)
	for fr.block != nil {
		fr.run()
	}
	return fr.result
}

func deref(t types.Type) types.Type {
	if p, ok := t.Underlying().(*types.Pointer); ok {
		return p.Elem()
	}
	panic(fmt.Sprintf("deref: not a pointer: %v", t))
}

func (fr *frame) run() {
	defer func() {
		if fr.block == nil {
			return
		}
		r := recover()
		if _, ok := r.(targetPanic); !ok {
			panic(r) // pathEnd or engine bug: propagate
		}
		fr.panicking = true
		fr.panic = r
		fr.runDefers()
		fr.block = fr.fn.Recover
		if fr.block == nil {
			// recovered in a function without named results: return zero values
			fr.result = zero(fr.fn.Signature.Results())
		}
	}()
	for {
		nonPhis := fr.executePhis()
		for _, instr := range nonPhis {
			fr.m.steps++
			if fr.m.steps > fr.m.maxSteps {
				panic(abort("step limit"))
			}
			if fr.visit(instr) == kReturn {
				return
			}
		}
	}
}

type continuation int

const (
	kNext continuation = iota
	kReturn
	kJump
)

func (fr *frame) executePhis() []ssa.Instruction {
	firstNonPhi := -1
	for i, instr := range fr.block.Instrs {
		if _, ok := instr.(*ssa.Phi); !ok {
			firstNonPhi = i
			break
		}
	}
	nonPhis := fr.block.Instrs[firstNonPhi:]
	if firstNonPhi > 0 {
		phis := fr.block.Instrs[:firstNonPhi]
		predIndex := -1
		for i, p := range fr.block.Preds {
			if p == fr.prevBlock {
				predIndex = i
				break
			}
		}
		fr.phitemps = fr.phitemps[:0]
		for _, phi := range phis {
			fr.phitemps = append(fr.phitemps, fr.get(phi.(*ssa.Phi).Edges[predIndex]))
		}
		for i, phi := range phis {
			fr.env[phi.(*ssa.Phi)] = fr.phitemps[i]
		}
	}
	return nonPhis
}

func (fr *frame) runDefer(d *deferred) {
	var ok bool
	defer func() {
		if !ok {
			r := recover()
			if _, isTP := r.(targetPanic); !isTP {
				panic(r)
			}
			fr.panicking = true
			fr.panic = r
		}
	}()
	fr.m.call(fr, token.NoPos, d.fn, d.args)
	ok = true
}

func (fr *frame) runDefers() {
	for d := fr.defers; d != nil; d = d.tail {
		fr.runDefer(d)
	}
	fr.defers = nil
	if fr.panicking {
		panic(fr.panic)
	}
}

func (fr *frame) jump(succ int) {
	fr.prevBlock, fr.block = fr.block, fr.block.Succs[succ]
	fr.m.cover(fr.fn, fr.block)
}

func (fr *frame) visit(instr ssa.Instruction) continuation {
	m := fr.m
	switch instr := instr.(type) {
	case *ssa.DebugRef:

	case *ssa.UnOp:
		fr.env[instr] = fr.unop(instr, fr.get(instr.X))

	case *ssa.BinOp:
		fr.env[instr] = fr.binop(instr, instr.Op, instr.X.Type(), fr.get(instr.X), fr.get(instr.Y))

	case *ssa.Call:
		fn, args := fr.prepareCall(&instr.Call, instr)
		fr.env[instr] = m.call(fr, instr.Pos(), fn, args)

	case *ssa.ChangeInterface:
		fr.env[instr] = fr.get(instr.X)

	case *ssa.ChangeType:
		fr.env[instr] = fr.get(instr.X)

	case *ssa.Convert:
		fr.env[instr] = fr.conv(instr, instr.Type(), instr.X.Type(), fr.get(instr.X))

	case *ssa.MultiConvert:
		fr.env[instr] = fr.conv(instr, instr.Type(), instr.X.Type(), fr.get(instr.X))

	case *ssa.MakeInterface:
		fr.env[instr] = Iface{t: instr.X.Type(), v: fr.get(instr.X)}

	case *ssa.Extract:
		fr.env[instr] = fr.get(instr.Tuple).(Tuple)[instr.Index]

	case *ssa.Slice:
		fr.env[instr] = fr.slice(instr, fr.get(instr.X), fr.get(instr.Low), fr.get(instr.High), fr.get(instr.Max))

	case *ssa.Return:
		switch len(instr.Results) {
		case 0:
		case 1:
			fr.result = fr.get(instr.Results[0])
		default:
			res := make(Tuple, 0, len(instr.Results))
			for _, r := range instr.Results {
				res = append(res, fr.get(r))
			}
			fr.result = res
		}
		fr.block = nil
		return kReturn

	case *ssa.RunDefers:
		fr.runDefers()

	case *ssa.Panic:
		panic(targetPanic{v: fr.get(instr.X), pos: fr.fn.String() + " " + m.pos(instr.Pos())})

	case *ssa.Store:
		fr.store(instr, fr.get(instr.Addr), fr.get(instr.Val))

	case *ssa.If:
		c := fr.get(instr.Cond)
		var b bool
		switch c := c.(type) {
		case bool:
			b = c
		case *Term:
			if c.kind != KConst && !m.pcSet[c] && !m.pcSet[TNot(c)] && mentionsStrLen(c) {
				// unwinding bound for loops whose trip count is the length of a symbolic string
				// (hand-written byte scanners): the first lenUnwind iterations are explored, longer
				// strings on this path are reported inconclusive
				if fr.lenForks == nil {
					fr.lenForks = map[*ssa.If]int{}
				}
				fr.lenForks[instr]++
				if fr.lenForks[instr] > lenUnwind {
					panic(abort(fmt.Sprintf("unwinding bound: loop over the length of a symbolic string (> %d iterations) at %s", lenUnwind-1, m.pos(instr.Pos()))))
				}
			}
			b = m.branch(c)
		default:
			panic(abort(fmt.Sprintf("If on %T", c)))
		}
		if b {
			fr.jump(0)
		} else {
			fr.jump(1)
		}
		return kJump

	case *ssa.Jump:
		fr.jump(0)
		return kJump

	case *ssa.Defer:
		fn, args := fr.prepareCall(&instr.Call, instr)
		if instr.DeferStack != nil {
			panic(abort("defer with explicit stack"))
		}
		fr.defers = &deferred{fn: fn, args: args, tail: fr.defers}

	case *ssa.Go:
		panic(abort("go statement at " + m.pos(instr.Pos())))

	case *ssa.MakeChan, *ssa.Select, *ssa.Send:
		panic(abort("channel operation at " + m.pos(instr.Pos())))

	case *ssa.Alloc:
		var addr *Value
		if instr.Heap {
			addr = new(Value)
			fr.env[instr] = addr
		} else {
			addr = fr.env[instr].(*Value)
		}
		*addr = zero(deref(instr.Type()))

	case *ssa.MakeSlice:
		ln := fr.concreteInt(fr.get(instr.Len), "MakeSlice len")
		cp := fr.concreteInt(fr.get(instr.Cap), "MakeSlice cap")
		if ln < 0 || cp < ln {
			fr.rtPanic(instr, "makeslice: len out of range")
		}
		tElt := instr.Type().Underlying().(*types.Slice).Elem()
		arr := make([]Value, cp)
		for i := range arr {
			arr[i] = zero(tElt)
		}
		fr.env[instr] = Slice{arr: &arr, off: 0, len: int(ln), cap: int(cp)}

	case *ssa.MakeMap:
		fr.env[instr] = newMap()

	case *ssa.Range:
		x := fr.get(instr.X)
		switch x := x.(type) {
		case *MapV:
			fr.m.flushPending(x)
			fr.env[instr] = &MapIter{m: x}
			m.orderNondet = true
		case Str:
			c, ok := x.Const()
			if !ok {
				panic(abort("range over symbolic string"))
			}
			fr.env[instr] = &StrIter{s: c}
		default:
			panic(abort(fmt.Sprintf("range over %T", x)))
		}

	case *ssa.Next:
		switch it := fr.get(instr.Iter).(type) {
		case *MapIter:
			fr.env[instr] = it.next()
		case *StrIter:
			fr.env[instr] = it.next()
		}

	case *ssa.FieldAddr:
		fr.env[instr] = fr.fieldAddr(instr, fr.get(instr.X), instr.Field)

	case *ssa.Field:
		fr.env[instr] = fr.get(instr.X).(Struct)[instr.Field]

	case *ssa.IndexAddr:
		fr.env[instr] = fr.indexAddr(instr, fr.get(instr.X), fr.get(instr.Index))

	case *ssa.Index:
		fr.env[instr] = fr.index(instr, fr.get(instr.X), fr.get(instr.Index))

	case *ssa.Lookup:
		fr.env[instr] = fr.lookup(instr, fr.get(instr.X), fr.get(instr.Index))

	case *ssa.MapUpdate:
		mv, _ := fr.get(instr.Map).(*MapV)
		if mv == nil {
			fr.rtPanic(instr, "assignment to entry in nil map")
		}
		m.mapUpdate(mv, fr.get(instr.Key), fr.get(instr.Value))

	case *ssa.TypeAssert:
		fr.env[instr] = fr.typeAssert(instr, fr.get(instr.X))

	case *ssa.MakeClosure:
		var bindings []Value
		for _, b := range instr.Bindings {
			bindings = append(bindings, fr.get(b))
		}
		fr.env[instr] = &Closure{instr.Fn.(*ssa.Function), bindings}

	case *ssa.SliceToArrayPointer:
		panic(abort("SliceToArrayPointer"))

	default:
		panic(abort(fmt.Sprintf("unsupported instruction %T", instr)))
	}
	return kNext
}

func (fr *frame) concreteInt(v Value, what string) int64 {
	n, ok := v.(Num)
	if !ok {
		panic(abort(fmt.Sprintf("%s: not an int (%T)", what, v)))
	}
	if n.t != nil {
		panic(abort(what + ": symbolic integer " + n.t.SMT()))
	}
	return n.c
}

// ---------- memory ----------

func (fr *frame) fieldAddr(instr ssa.Instruction, x Value, field int) Value {
	switch p := x.(type) {
	case *Value:
		if p == nil {
			fr.rtPanic(instr, "invalid memory address or nil pointer dereference")
		}
		s, ok := (*p).(Struct)
		if !ok {
			panic(abort(fmt.Sprintf("FieldAddr on %T at %s", *p, fr.m.pos(instr.Pos()))))
		}
		return &s[field]
	case SymPtr:
		out := SymPtr{}
		for _, c := range p.cands {
			s := (*c.p).(Struct)
			out.cands = append(out.cands, PtrCand{c.g, &s[field]})
		}
		return out
	case *Opaque:
		if p == nil {
			fr.rtPanic(instr, "invalid memory address or nil pointer dereference")
		}
		panic(abort("FieldAddr on opaque " + p.kind + " at " + fr.m.pos(instr.Pos())))
	}
	panic(abort(fmt.Sprintf("FieldAddr on %T", x)))
}

func (fr *frame) load(instr ssa.Instruction, x Value) Value {
	switch p := x.(type) {
	case *Value:
		if p == nil {
			fr.rtPanic(instr, "invalid memory address or nil pointer dereference")
		}
		return copyVal(*p)
	case SymPtr:
		return fr.m.loadSym(p)
	case SymElem:
		return fr.m.symArrayIndex(fr, instr, p.arr, p.idx)
	case *Opaque:
		if p == nil {
			fr.rtPanic(instr, "invalid memory address or nil pointer dereference")
		}
		if p.kind == "poison" {
			panic(abort("read of unmodelled global " + p.data.(string)))
		}
		panic(abort("load through opaque " + p.kind + " at " + fr.m.pos(instr.Pos())))
	}
	panic(abort(fmt.Sprintf("load through %T", x)))
}

func (fr *frame) store(instr ssa.Instruction, addr Value, v Value) {
	switch p := addr.(type) {
	case *Value:
		if p == nil {
			fr.rtPanic(instr, "invalid memory address or nil pointer dereference")
		}
		*p = copyVal(v)
	case SymPtr:
		c := fr.m.pickCand(p)
		*c = copyVal(v)
	case *Opaque:
		if p != nil && p.kind == "poison" {
			// writes to unmodelled globals are dropped
			return
		}
		panic(abort("store through opaque"))
	default:
		panic(abort(fmt.Sprintf("store through %T", addr)))
	}
}

// SymElem: address of an element of a table selected by a symbolic index (read-only).
type SymElem struct {
	arr Array
	idx Num
}

func (fr *frame) indexAddr(instr ssa.Instruction, x, idx Value) Value {
	if n, ok := idx.(Num); ok && n.t != nil {
		switch x := x.(type) {
		case *Value:
			if x != nil {
				if a, ok := (*x).(Array); ok {
					return SymElem{a, n}
				}
			}
		case Slice:
			if x.rope == nil && x.arr != nil {
				a := make(Array, x.len)
				for i := range a {
					a[i] = *x.At(i)
				}
				return SymElem{a, n}
			}
		}
	}
	i := fr.concreteInt(idx, "IndexAddr index at "+fr.m.pos(instr.Pos()))
	switch x := x.(type) {
	case Slice:
		if x.rope != nil {
			panic(abort("IndexAddr into symbolic byte view at " + fr.m.pos(instr.Pos())))
		}
		if i < 0 || int(i) >= x.len {
			fr.rtPanic(instr, fmt.Sprintf("index out of range [%d] with length %d", i, x.len))
		}
		return x.At(int(i))
	case *Value:
		if x == nil {
			fr.rtPanic(instr, "invalid memory address or nil pointer dereference")
		}
		a := (*x).(Array)
		if i < 0 || int(i) >= len(a) {
			fr.rtPanic(instr, fmt.Sprintf("index out of range [%d] with length %d", i, len(a)))
		}
		return &a[i]
	}
	panic(abort(fmt.Sprintf("IndexAddr on %T", x)))
}

func (fr *frame) index(instr *ssa.Index, x, idx Value) Value {
	switch x := x.(type) {
	case Array:
		in := idx.(Num)
		if in.t != nil {
			return fr.m.symArrayIndex(fr, instr, x, in)
		}
		i := in.c
		if i < 0 || int(i) >= len(x) {
			fr.rtPanic(instr, fmt.Sprintf("index out of range [%d] with length %d", i, len(x)))
		}
		return x[i]
	case Str:
		return fr.m.strIndex(fr, instr, x, idx.(Num))
	}
	panic(abort(fmt.Sprintf("Index on %T", x)))
}

func (fr *frame) typeAssert(instr *ssa.TypeAssert, x Value) Value {
	itf, ok := x.(Iface)
	if !ok {
		panic(abort(fmt.Sprintf("TypeAssert on %T", x)))
	}
	var v Value
	err := ""
	if idst, ok := instr.AssertedType.Underlying().(*types.Interface); ok {
		v = itf
		if itf.t == nil {
			err = fmt.Sprintf("interface conversion: interface is nil, not %s", instr.AssertedType)
		} else if !types.Implements(itf.t, idst) {
			err = fmt.Sprintf("interface conversion: %v does not implement %v", itf.t, instr.AssertedType)
		}
	} else {
		v = itf.v
		if itf.t == nil {
			err = fmt.Sprintf("interface conversion: interface is nil, not %s", instr.AssertedType)
		} else if !types.Identical(itf.t, instr.AssertedType) {
			err = fmt.Sprintf("interface conversion: interface is %s, not %s", itf.t, instr.AssertedType)
		}
	}
	if err != "" {
		if !instr.CommaOk {
			fr.rtPanic(instr, err)
		}
		return Tuple{zero(instr.AssertedType), false}
	}
	if instr.CommaOk {
		return Tuple{v, true}
	}
	return v
}

// ---------- coverage ----------

func (m *Machine) cover(fn *ssa.Function, b *ssa.BasicBlock) {
	if m.eng.coverage == nil {
		return
	}
	if fn.Pkg != m.eng.mainPkg {
		return
	}
	m.covered[b] = struct{}{}
}

// ---------- summaries of pure boolean callees ----------

// summarisable: pure functions (no heap writes, no events) returning one bool. All their
// paths are explored locally and the result is returned as one formula, so callers fork
// on the result only (not on the callee's internal case split).
var summarisable = map[string]bool{}

func (m *Machine) summarise(caller *frame, pos token.Pos, fn *ssa.Function, args []Value, env []Value) (res Value, ok bool) {
	if fn.Signature.Results().Len() != 1 {
		return nil, false
	}
	if b, isB := fn.Signature.Results().At(0).Type().Underlying().(*types.Basic); !isB || b.Kind() != types.Bool {
		return nil, false
	}
	basePC := len(m.pc)
	saveTrail, saveTpos, savePending := m.trail, m.tpos, m.pending
	saveEvents := len(m.events)
	truncate := func() {
		for _, t := range m.pc[basePC:] {
			delete(m.pcSet, t)
		}
		m.pc = m.pc[:basePC]
	}
	restore := func() {
		truncate()
		m.trail, m.tpos, m.pending = saveTrail, saveTpos, savePending
		m.inSummary = false
	}
	m.inSummary = true
	work := [][]int{{}}
	var result *Term = tFalse
	failed := false
	for len(work) > 0 && !failed {
		t := work[len(work)-1]
		work = work[:len(work)-1]
		m.trail = append([]int{}, t...)
		m.tpos = 0
		m.pending = nil
		var val Value
		func() {
			defer func() {
				if r := recover(); r != nil {
					if pe, isPE := r.(pathEnd); isPE && pe.kind == "infeasible" {
						val = nil
						return
					}
					failed = true
				}
			}()
			val = m.callSSA(caller, pos, fn, args, env)
		}()
		if failed || len(m.events) != saveEvents {
			failed = true
			break
		}
		if val != nil {
			cond := TAnd(m.pc[basePC:]...)
			result = TOr(result, TAnd(cond, boolTerm(val)))
		}
		work = append(work, m.pending...)
		truncate()
	}
	restore()
	if failed {
		m.events = m.events[:saveEvents]
		return nil, false
	}
	return mkBool(result), true
}

// opaqueCall: a method of a modelled library object reached through an interface value.
type opaqueCall struct{ in intrinsic }

// lenUnwind: evaluations of one length-dependent branch per function activation.
var lenUnwind = 4

func mentionsStrLen(t *Term) bool {
	return len(subterms([]*Term{t}, func(x *Term) bool { return x.kind == KApp && x.op == "str.len" })) > 0
}
