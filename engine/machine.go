package main

import (
	"fmt"
	"go/types"
	"os"
	"sort"
	"strings"
	"sync"

	"golang.org/x/tools/go/ssa"
)

type intrinsic func(m *Machine, caller *frame, args []Value) Value

// Engine: state shared by all paths of all jobs (read-only after load).
type Engine struct {
	prog           *ssa.Program
	mainPkg        *ssa.Package
	intrinsics     map[string]intrinsic
	opaqueMethods  map[string]intrinsic // methods of modelled library objects reached through interfaces (kind.Method)
	intrCache      sync.Map // *ssa.Function -> intrinsic (or nil marker)
	allowCache     sync.Map
	vocab          map[string]bool // every string constant of package main (operator vocabulary)
	runtimeErrType types.Type
	coverage       map[*ssa.BasicBlock]struct{}
	covMu          sync.Mutex
	initOrder      []*ssa.Package
	typesByName    map[string]types.Type
}

var allowedPkgs = map[string]bool{
	"github.com/elliotchance/orderedmap/v3": true,
	"slices":                                true,
	"errors":                                true,
	"internal/errors":                       true,
	"encoding/base64":                       true,
	"unicode/utf8":                          true,
	"cmp":                                   true,
	"math/bits":                             true,
	"io":                                    true,
	"bufio":                                 true,
	"net":                                   true,
	"internal/bytealg":                      true,
	"internal/stringslite":                  true,
	"encoding/binary":                       true,
	"internal/byteorder":                    true,
	"bytes":                                 true,
	"strings":                               true,
	"sort":                                  true,
}

func (e *Engine) allowed(fn *ssa.Function) bool {
	if v, ok := e.allowCache.Load(fn); ok {
		return v.(bool)
	}
	p := fn.Pkg
	if p == nil && fn.Origin() != nil {
		p = fn.Origin().Pkg
	}
	if p == nil && fn.Parent() != nil {
		pp := fn
		for pp.Parent() != nil {
			pp = pp.Parent()
		}
		p = pp.Pkg
		if p == nil && pp.Origin() != nil {
			p = pp.Origin().Pkg
		}
	}
	ok := false
	if p == nil {
		// synthetic wrappers (bound methods, thunks): allowed; their callee is checked itself
		ok = fn.Synthetic != ""
	} else {
		ok = allowedPkgs[p.Pkg.Path()]
	}
	if !ok && fn.Blocks != nil {
		// small library helpers whose whole call closure is executable (bodies, intrinsics or pure
		// functions only; no goroutines, channels, dynamic dispatch): run the real code
		ok = e.closedSmall(fn, 0, map[*ssa.Function]bool{})
	}
	e.allowCache.Store(fn, ok)
	return ok
}

func (e *Engine) closedSmall(fn *ssa.Function, depth int, seen map[*ssa.Function]bool) bool {
	if seen[fn] {
		return true
	}
	seen[fn] = true
	if depth > 3 || len(seen) > 24 || fn.Blocks == nil {
		return false
	}
	n := 0
	for _, b := range fn.Blocks {
		for _, in := range b.Instrs {
			n++
			if n > 120 {
				return false
			}
			switch x := in.(type) {
			case *ssa.Go, *ssa.Select, *ssa.Send, *ssa.MakeChan:
				return false
			case ssa.CallInstruction:
				c := x.Common()
				if c.IsInvoke() {
					return false
				}
				switch callee := c.Value.(type) {
				case *ssa.Builtin:
				case *ssa.Function:
					if e.intrinsicFor(callee) != nil {
						continue
					}
					if callee.Blocks == nil {
						return false
					}
					pk := callee.Pkg
					if pk == nil && callee.Origin() != nil {
						pk = callee.Origin().Pkg
					}
					if pk != nil && allowedPkgs[pk.Pkg.Path()] {
						continue
					}
					if !e.closedSmall(callee, depth+1, seen) {
						return false
					}
				case *ssa.MakeClosure:
					if f, ok := callee.Fn.(*ssa.Function); !ok || !e.closedSmall(f, depth+1, seen) {
						return false
					}
				default:
					return false
				}
			}
		}
	}
	return true
}

type noIntr struct{}

func (e *Engine) intrinsicFor(fn *ssa.Function) intrinsic {
	if v, ok := e.intrCache.Load(fn); ok {
		if in, ok := v.(intrinsic); ok {
			return in
		}
		return nil
	}
	name := fn.String()
	in := e.intrinsics[name]
	if in == nil && fn.Origin() != nil {
		in = e.intrinsics[fn.Origin().String()]
	}
	if in == nil && fn.Name() == "init" && fn.Pkg != nil && fn.Signature.Recv() == nil && fn.Parent() == nil {
		// package initialisers of packages that are not executed
		if !initPkgs[fn.Pkg.Pkg.Path()] {
			in = func(m *Machine, caller *frame, args []Value) Value { return nil }
		}
	}
	if in == nil && fn.Pkg != nil && fn.Signature.Recv() == nil && fn.Parent() == nil {
		in = e.pureIntrinsic(name)
	}
	if in == nil {
		e.intrCache.Store(fn, noIntr{})
		return nil
	}
	e.intrCache.Store(fn, in)
	return in
}

// packages whose init functions are executed by the engine (pure table builders)
var initPkgs = map[string]bool{
	"io":              true,
	"encoding/base64": true,
	"encoding/binary": true,
}

type Event struct {
	Kind string
	Args []Value
}

type Obligation struct {
	ID      string
	Result  string // "discharged" | "violated" | "inconclusive" | "trivial"
	Model   *Model
	PCSize  int
	Cond    string
	Trail   []int
	Details string
	Q       []*Term // the query of an instance whose witness search was skipped (cleared after the job)
}

// Machine: per-path interpreter state.
type Machine struct {
	eng      *Engine
	prog     *ssa.Program
	solver   *Solver
	globals  map[*ssa.Global]*Value
	steps    int
	maxSteps int
	depth    int
	maxDepth int

	// path condition
	pc    []*Term
	pcSet map[*Term]bool

	// decision trail
	trail    []int
	tpos     int
	pending  [][]int // sibling trails discovered on this run
	decided  int     // number of solver-decided branch decisions on this run

	freshAtoms  map[*Term]bool
	orderNondet bool
	covered     map[*ssa.BasicBlock]struct{}

	events      []Event
	obligations []Obligation
	reached     map[string]bool
	job         *Job
	atomSeq     int
	notes       []string
	unknownFeas int
	rng         map[string]int
	inSummary   bool
	prefs       map[*Term]string // preferred witness values of free atoms (witness hygiene)
	inputs      map[string]Value // named symbolic inputs created by the harness API
	inputOrder  []string
	splitMemo   map[splitKey][2]*Term
	cliSt        *cliState
	fs           map[string]*fsEntry
	notExistErrs map[*Value]bool
	httpSt       *httpState
	stdioMark    int
	fileInfos    map[*Opaque]*fsEntry
	atomClass    map[*Term]*charClass // character classes of atoms (harness assumption verifAssumeWord)
}

func (m *Machine) addPC(t *Term) {
	if t.kind == KConst {
		if !t.b {
			panic(pathEnd{kind: "infeasible"})
		}
		return
	}
	if t.kind == KApp && t.op == "and" {
		for _, a := range t.args {
			m.addPC(a)
		}
		return
	}
	if m.pcSet[t] {
		return
	}
	m.pcSet[t] = true
	m.pc = append(m.pc, t)
}

func (m *Machine) feasible(extra *Term) Result {
	if extra.kind == KConst {
		if extra.b {
			return Sat
		}
		return Unsat
	}
	if m.pcSet[extra] {
		return Sat
	}
	if m.pcSet[TNot(extra)] {
		return Unsat
	}
	q := append(sliceIndependent(m.pc, extra), extra)
	first := 1
	if hasBVArith(q) {
		first = 0 // bit-vector arithmetic: z3 first
	}
	r, _ := m.solver.CheckOn(first, q, false)
	return r
}

// sliceIndependent keeps only the constraints of pc that (transitively) share a variable
// with extra. The path condition is satisfiable by invariant, so the dropped part cannot
// change the answer (constraint independence; exact).
func sliceIndependent(pc []*Term, extra *Term) []*Term {
	vars := map[*Term]struct{}{}
	for a := range extra.Atoms() {
		vars[a] = struct{}{}
	}
	if len(vars) == 0 {
		return append([]*Term{}, pc...)
	}
	used := make([]bool, len(pc))
	for changed := true; changed; {
		changed = false
		for i, t := range pc {
			if used[i] {
				continue
			}
			hit := false
			for a := range t.Atoms() {
				if _, ok := vars[a]; ok {
					hit = true
					break
				}
			}
			if hit {
				used[i] = true
				changed = true
				for a := range t.Atoms() {
					vars[a] = struct{}{}
				}
			}
		}
	}
	var out []*Term
	for i, t := range pc {
		if used[i] {
			out = append(out, t)
		}
	}
	return out
}

// branch decides a symbolic condition, forking when both sides are feasible.
func (m *Machine) branch(c *Term) bool {
	if c.kind == KConst {
		return c.b
	}
	if m.pcSet[c] {
		return true
	}
	nc := TNot(c)
	if m.pcSet[nc] {
		return false
	}
	var d int
	if m.tpos < len(m.trail) {
		d = m.trail[m.tpos]
		m.tpos++
	} else {
		rt := m.feasible(c)
		var rf Result
		if rt == Unsat {
			rf = Sat // PC is satisfiable by invariant
		} else {
			rf = m.feasible(nc)
		}
		m.decided++
		if rt == Unknown || rf == Unknown {
			m.unknownFeas++
		}
		switch {
		case rt != Unsat && rf != Unsat:
			alt := append(append([]int{}, m.trail[:m.tpos]...), 0)
			m.pending = append(m.pending, alt)
			d = 1
		case rt != Unsat:
			d = 1
		default:
			d = 0
		}
		m.trail = append(m.trail, d)
		m.tpos++
	}
	if d == 1 {
		m.addPC(c)
		return true
	}
	m.addPC(nc)
	return false
}

// choose picks one of n alternatives; guards[i] (may be nil) is the condition of alternative i.
func (m *Machine) choose(n int, guards []*Term) int {
	if n == 1 && (guards == nil || guards[0] == nil) {
		return 0
	}
	var d int
	if m.tpos < len(m.trail) {
		d = m.trail[m.tpos]
		m.tpos++
	} else {
		if debugChoose && n > 4 {
			fmt.Fprintf(os.Stderr, "choose n=%d at depth %d; guards[0]=%s\n", n, m.depth, trunc(guards[0].SMT(), 300))
		}
		var feas []int
		for i := 0; i < n; i++ {
			if guards == nil || guards[i] == nil {
				feas = append(feas, i)
				continue
			}
			r := m.feasible(guards[i])
			m.decided++
			if r == Unknown {
				m.unknownFeas++
			}
			if r != Unsat {
				feas = append(feas, i)
			}
		}
		if len(feas) == 0 {
			panic(pathEnd{kind: "infeasible"})
		}
		d = feas[0]
		for _, alt := range feas[1:] {
			t := append(append([]int{}, m.trail[:m.tpos]...), alt)
			m.pending = append(m.pending, t)
		}
		m.trail = append(m.trail, d)
		m.tpos++
	}
	if guards != nil && guards[d] != nil {
		m.addPC(guards[d])
	}
	return d
}

// ---------- globals ----------

func (m *Machine) global(g *ssa.Global) Value {
	if p, ok := m.globals[g]; ok {
		return p
	}
	if ov, ok := globalOverrides[g.String()]; ok {
		p := new(Value)
		*p = ov(m)
		m.globals[g] = p
		return p
	}
	path := ""
	if g.Pkg != nil {
		path = g.Pkg.Pkg.Path()
	}
	if initPkgs[path] || strings.HasPrefix(g.Name(), "init$guard") {
		p := new(Value)
		*p = zero(deref(g.Type()))
		m.globals[g] = p
		return p
	}
	// unmodelled package state
	return &Opaque{kind: "poison", data: g.String()}
}

var globalOverrides = map[string]func(m *Machine) Value{}

// ---------- maps ----------

func constKey(k Value) (string, bool, int64, bool) {
	switch k := k.(type) {
	case Str:
		if c, ok := k.Const(); ok {
			return c, true, 0, false
		}
	case Num:
		if k.t == nil {
			return "", false, k.c, true
		}
	}
	return "", false, 0, false
}

func (mv *MapV) addEntry(k Value, v Value) *MapEntry {
	cell := new(Value)
	*cell = v
	e := &MapEntry{k: k, v: cell}
	mv.entries = append(mv.entries, e)
	mv.n++
	if s, ok, i, iok := constKey(k); ok {
		mv.index[s] = e
	} else if iok {
		mv.ikeys[i] = e
	} else {
		mv.symKeys++
	}
	return e
}

// candidates returns the entries whose key may equal k, with guards.
func (m *Machine) candidates(mv *MapV, k Value) (cands []*MapEntry, guards []*Term, definite *MapEntry) {
	if s, ok, i, iok := constKey(k); ok || iok {
		var e *MapEntry
		if ok {
			e = mv.index[s]
		} else {
			e = mv.ikeys[i]
		}
		if e != nil && !e.deleted {
			return nil, nil, e
		}
		if mv.symKeys == 0 {
			return nil, nil, nil
		}
		for _, e := range mv.entries {
			if e.deleted {
				continue
			}
			if _, c1, _, c2 := constKey(e.k); c1 || c2 {
				continue
			}
			g := m.equalVals(k, e.k)
			if g.kind == KConst {
				if g.b {
					return nil, nil, e
				}
				continue
			}
			cands = append(cands, e)
			guards = append(guards, g)
		}
		return
	}
	for _, e := range mv.entries {
		if e.deleted {
			continue
		}
		g := m.equalVals(k, e.k)
		if g.kind == KConst {
			if g.b {
				return nil, nil, e
			}
			continue
		}
		cands = append(cands, e)
		guards = append(guards, g)
	}
	return
}

func (fr *frame) lookup(instr *ssa.Lookup, x, idx Value) Value {
	m := fr.m
	switch x := x.(type) {
	case Str:
		return m.strIndex(fr, instr, x, idx.(Num))
	case *MapV:
		elemT := instr.X.Type().Underlying().(*types.Map).Elem()
		var val Value
		var ok Value
		if x == nil {
			val, ok = zero(elemT), false
		} else {
			val, ok = m.mapLookup(x, idx, elemT)
		}
		if instr.CommaOk {
			return Tuple{val, ok}
		}
		return val
	}
	panic(abort(fmt.Sprintf("lookup in %T", x)))
}

func (m *Machine) mapLookup(mv *MapV, k Value, elemT types.Type) (Value, Value) {
	m.flushPending(mv)
	cands, guards, def := m.candidates(mv, k)
	if def != nil {
		return copyVal(*def.v), true
	}
	if len(cands) == 0 {
		return zero(elemT), false
	}
	_, isPtr := elemT.Underlying().(*types.Pointer)
	if isPtr {
		sp := SymPtr{}
		allPtr := true
		for i, e := range cands {
			p, ok := (*e.v).(*Value)
			if !ok || p == nil {
				allPtr = false
				break
			}
			sp.cands = append(sp.cands, PtrCand{guards[i], p})
		}
		if allPtr {
			return sp, mkBool(TOr(guards...))
		}
	}
	// fork: group candidates by value, plus the miss alternative
	type group struct {
		val Value
		g   []*Term
	}
	var groups []group
	for i, e := range cands {
		v := *e.v
		found := false
		for gi := range groups {
			if sameConcrete(groups[gi].val, v) {
				groups[gi].g = append(groups[gi].g, guards[i])
				found = true
				break
			}
		}
		if !found {
			groups = append(groups, group{v, []*Term{guards[i]}})
		}
	}
	gs := make([]*Term, 0, len(groups)+1)
	for _, g := range groups {
		gs = append(gs, TOr(g.g...))
	}
	gs = append(gs, TNot(TOr(guards...)))
	d := m.choose(len(gs), gs)
	if d == len(groups) {
		return zero(elemT), false
	}
	return copyVal(groups[d].val), true
}

// flushPending applies deferred updates (symbolic keys whose aliasing with existing keys
// was not needed so far) before the map is read.
func (m *Machine) flushPending(mv *MapV) {
	if mv == nil || len(mv.pendingK) == 0 {
		return
	}
	ks, vs := mv.pendingK, mv.pendingV
	mv.pendingK, mv.pendingV = nil, nil
	for i := range ks {
		m.mapUpdateNow(mv, ks[i], vs[i])
	}
}

func (m *Machine) mapUpdate(mv *MapV, k Value, v Value) {
	if len(mv.pendingK) > 0 {
		mv.pendingK = append(mv.pendingK, k)
		mv.pendingV = append(mv.pendingV, copyVal(v))
		return
	}
	if _, c1, _, c2 := constKey(k); !c1 && !c2 {
		cands, _, def := m.candidates(mv, k)
		if def == nil && len(cands) > 0 {
			// aliasing with existing symbolic keys is undecided: defer until the map is read
			mv.pendingK = append(mv.pendingK, k)
			mv.pendingV = append(mv.pendingV, copyVal(v))
			return
		}
	}
	m.mapUpdateNow(mv, k, v)
}

func (m *Machine) mapUpdateNow(mv *MapV, k Value, v Value) {
	cands, guards, def := m.candidates(mv, k)
	if def != nil {
		*def.v = copyVal(v)
		return
	}
	if len(cands) == 0 {
		mv.addEntry(k, copyVal(v))
		return
	}
	gs := append([]*Term{}, guards...)
	gs = append(gs, TNot(TOr(guards...)))
	d := m.choose(len(gs), gs)
	if d == len(cands) {
		mv.addEntry(k, copyVal(v))
		return
	}
	*cands[d].v = copyVal(v)
}

func (m *Machine) mapDelete(mv *MapV, k Value) {
	m.flushPending(mv)
	cands, guards, def := m.candidates(mv, k)
	del := func(e *MapEntry) {
		e.deleted = true
		mv.n--
		if s, ok, i, iok := constKey(e.k); ok {
			delete(mv.index, s)
		} else if iok {
			delete(mv.ikeys, i)
		} else {
			mv.symKeys--
		}
	}
	if def != nil {
		del(def)
		return
	}
	if len(cands) == 0 {
		return
	}
	gs := append([]*Term{}, guards...)
	gs = append(gs, TNot(TOr(guards...)))
	d := m.choose(len(gs), gs)
	if d < len(cands) {
		del(cands[d])
	}
}

// sameConcrete: cheap structural identity used for grouping loaded values.
func sameConcrete(a, b Value) bool {
	switch av := a.(type) {
	case bool:
		bv, ok := b.(bool)
		return ok && av == bv
	case *Term:
		bv, ok := b.(*Term)
		return ok && av == bv
	case Num:
		bv, ok := b.(Num)
		return ok && av == bv
	case float64:
		bv, ok := b.(float64)
		return ok && av == bv
	case Str:
		bv, ok := b.(Str)
		if !ok {
			return false
		}
		return av.Term() == bv.Term()
	case *Value:
		bv, ok := b.(*Value)
		return ok && av == bv
	case *Opaque:
		bv, ok := b.(*Opaque)
		return ok && av == bv
	case Iface:
		bv, ok := b.(Iface)
		if !ok {
			return false
		}
		if av.t == nil || bv.t == nil {
			return av.t == nil && bv.t == nil
		}
		return types.Identical(av.t, bv.t) && sameConcrete(av.v, bv.v)
	case Struct:
		bv, ok := b.(Struct)
		if !ok || len(av) != len(bv) {
			return false
		}
		for i := range av {
			if !sameConcrete(av[i], bv[i]) {
				return false
			}
		}
		return true
	case *MapV:
		bv, ok := b.(*MapV)
		return ok && av == bv
	case Slice:
		bv, ok := b.(Slice)
		return ok && av.arr == bv.arr && av.off == bv.off && av.len == bv.len && av.cap == bv.cap && av.rope == bv.rope
	}
	return false
}

// loadSym loads through a guarded pointer set: candidates are grouped by loaded value
// and the path forks once per group.
func (m *Machine) loadSym(p SymPtr) Value {
	type group struct {
		val Value
		g   []*Term
	}
	var groups []group
	for _, c := range p.cands {
		v := *c.p
		found := false
		for gi := range groups {
			if sameConcrete(groups[gi].val, v) {
				groups[gi].g = append(groups[gi].g, c.g)
				found = true
				break
			}
		}
		if !found {
			groups = append(groups, group{v, []*Term{c.g}})
		}
	}
	if len(groups) == 0 {
		panic(targetPanic{runtime: "invalid memory address or nil pointer dereference (empty candidate set)"})
	}
	gs := make([]*Term, len(groups))
	for i, g := range groups {
		gs[i] = TOr(g.g...)
	}
	d := m.choose(len(gs), gs)
	return copyVal(groups[d].val)
}

func (m *Machine) pickCand(p SymPtr) *Value {
	gs := make([]*Term, len(p.cands))
	for i, c := range p.cands {
		gs[i] = c.g
	}
	d := m.choose(len(gs), gs)
	return p.cands[d].p
}

// ---------- vocabulary ----------

func (e *Engine) computeVocab() {
	e.vocab = map[string]bool{}
	for fn := range allFunctionsOf(e.mainPkg) {
		for _, b := range fn.Blocks {
			for _, ins := range b.Instrs {
				for _, op := range ins.Operands(nil) {
					if c, ok := (*op).(*ssa.Const); ok && c.Value != nil {
						if bt, ok := c.Type().Underlying().(*types.Basic); ok && bt.Info()&types.IsString != 0 {
							if s, ok := constValue(c).(Str).Const(); ok {
								e.vocab[s] = true
							}
						}
					}
				}
			}
		}
	}
}

func allFunctionsOf(p *ssa.Package) map[*ssa.Function]bool {
	out := map[*ssa.Function]bool{}
	var add func(f *ssa.Function)
	add = func(f *ssa.Function) {
		if f == nil || out[f] {
			return
		}
		out[f] = true
		for _, a := range f.AnonFuncs {
			add(a)
		}
	}
	for _, mem := range p.Members {
		switch mem := mem.(type) {
		case *ssa.Function:
			add(mem)
		case *ssa.Type:
			for _, T := range []types.Type{mem.Type(), types.NewPointer(mem.Type())} {
				ms := p.Prog.MethodSets.MethodSet(T)
				for i := 0; i < ms.Len(); i++ {
					add(p.Prog.MethodValue(ms.At(i)))
				}
			}
		}
	}
	return out
}

func sortedKeys[V any](m map[string]V) []string {
	ks := make([]string, 0, len(m))
	for k := range m {
		ks = append(ks, k)
	}
	sort.Strings(ks)
	return ks
}

var mainPath = "anonymongo/src"

var debugSMT = os.Getenv("GOSYM_DEBUG_SMT") != ""
var debugOut = os.Stderr

var debugChoose = os.Getenv("GOSYM_DEBUG_CHOOSE") != ""

func hasBVArith(q []*Term) bool {
	return len(subterms(q, func(t *Term) bool { return t.kind == KApp && !t.uf && strings.HasPrefix(t.op, "bv") })) > 0
}
