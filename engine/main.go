package main

import (
	"encoding/json"
	"flag"
	"fmt"
	"os"
	"path/filepath"
	"strings"
	"time"
)

func loadDefault() *Engine {
	t0 := time.Now()
	e, err := LoadEngine(LoadConfig{RepoDir: repoDir, Overlay: harnessOverlay(), GoBinPath: goBinPath})
	if err != nil {
		fmt.Fprintln(os.Stderr, "load failed:", err)
		os.Exit(3)
	}
	loadTime = time.Since(t0)
	return e
}

var loadTime time.Duration

type preset struct {
	name   string
	params map[string]string
}

var fixturePresets = []preset{
	{"default", map[string]string{}},
	{"numbers+booleans+ips", map[string]string{"redactNumbers": "true", "redactBooleans": "true", "redactIPs": "true"}},
	{"namespaces", map[string]string{"redactNamespaces": "true"}},
	{"eager", map[string]string{"eagerPath": ""}}, // filled per fixture with the line's ns
	{"regexp", map[string]string{"fieldsRegexp": "^(name|email|ssn|foo|_id|status)$"}},
	{"replacement", map[string]string{"replacement": "<x\"y\\z>", "redactNumbers": "true"}},
}

func fixtureLines() (names []string, lines []string) {
	files, _ := filepath.Glob(repoDir + "/test_fixtures/*.json")
	for _, f := range files {
		b, err := os.ReadFile(f)
		if err != nil {
			continue
		}
		l := strings.TrimSpace(string(b))
		if !strings.HasPrefix(l, "{") || !json.Valid([]byte(l)) {
			continue
		}
		names = append(names, filepath.Base(f))
		lines = append(lines, l)
	}
	return
}

// runFixtureDifferential pushes every fixture line x option preset through the engine
// (concrete mode) and through the real build; outputs must be byte-identical.
func runFixtureDifferential(e *Engine) (n int, mismatches []string) {
	names, lines := fixtureLines()
	var cases []NativeCase
	var jobs []*Job
	for i, l := range lines {
		var probe struct {
			Attr struct {
				Ns string `json:"ns"`
			} `json:"attr"`
		}
		json.Unmarshal([]byte(l), &probe)
		for _, p := range fixturePresets {
			params := map[string]string{}
			for k, v := range p.params {
				params[k] = v
			}
			if _, ok := params["eagerPath"]; ok {
				if probe.Attr.Ns == "" {
					continue
				}
				params["eagerPath"] = probe.Attr.Ns
			}
			tpl := &Template{Name: "L0", Text: l}
			job := &Job{Name: names[i] + "/" + p.name, Harness: "H_fixture", Lines: map[string]*Template{"L0": tpl}, Params: params}
			jobs = append(jobs, job)
			cases = append(cases, NativeCase{Harness: "H_fixture", Model: &NativeModel{Lines: map[string]string{"L0": l}, Params: params}})
		}
	}
	nat, err := RunNative(cases)
	if err != nil {
		return 0, []string{"native run failed: " + err.Error()}
	}
	type res struct {
		i   int
		out []string
		msg string
	}
	ch := make(chan res, len(jobs))
	sem := make(chan struct{}, 16)
	for i, j := range jobs {
		go func(i int, j *Job) {
			sem <- struct{}{}
			defer func() { <-sem }()
			jr := e.RunJob(j, 1)
			r := res{i: i}
			if len(jr.Paths) != 1 {
				r.msg = fmt.Sprintf("%d paths", len(jr.Paths))
			} else {
				p := jr.Paths[0]
				if p.End != "done" {
					r.msg = p.End + ": " + p.Msg
				}
				for _, ev := range p.Events {
					if ev.Kind == "emit" {
						s, ok := ev.Args[0].(Str).Const()
						if !ok {
							s = "<symbolic>"
						}
						r.out = append(r.out, s)
					}
				}
			}
			ch <- r
		}(i, j)
	}
	for range jobs {
		r := <-ch
		n++
		want := nat[r.i]
		got := strings.Join(r.out, "\n")
		exp := strings.Join(want.Emitted, "\n")
		if want.Panic != "" {
			exp = "PANIC " + want.Panic
		}
		if r.msg != "" || got != exp {
			mismatches = append(mismatches, fmt.Sprintf("%s: engine=%q %s native=%q", jobs[r.i].Name, trunc(got, 150), r.msg, trunc(exp, 150)))
		}
	}
	return
}

func trunc(s string, n int) string {
	if len(s) > n {
		return s[:n] + "..."
	}
	return s
}

func main() {
	os.Setenv("PATH", goBinPath+":"+os.Getenv("PATH"))
	os.Setenv("GOFLAGS", "-mod=mod")
	os.Setenv("GOPROXY", "off")
	os.Setenv("GOTOOLCHAIN", "local")
	if d := os.Getenv("GOSYM_REPO"); d != "" {
		repoDir = d // mutation self-tests: a scratch worktree of the repository
	}
	if d := os.Getenv("GOSYM_OUT"); d != "" {
		outDir = d // evidence / replays of self-test runs go elsewhere
	}
	if d := os.Getenv("GOSYM_HARNESS_DIR"); d != "" {
		harnessDir = d // development only: harness files from a scratch directory
	}
	if len(os.Args) < 2 {
		fmt.Fprintln(os.Stderr, "usage: gosym <fixtures|check> ...")
		os.Exit(2)
	}
	switch os.Args[1] {
	case "fixtures":
		e := loadDefault()
		fmt.Println("loaded in", loadTime)
		t0 := time.Now()
		n, mm := runFixtureDifferential(e)
		fmt.Printf("fixture differential: %d cases, %d mismatches, %v\n", n, len(mm), time.Since(t0))
		for _, m := range mm {
			fmt.Println("  MISMATCH", m)
		}
		if len(mm) > 0 {
			os.Exit(1)
		}
	case "spec":
		specs := buildCorpus()
		q := 0
		for _, sp := range specs {
			if _, err := ParseTemplate("L0", sp.Text); err != nil {
				fmt.Println("BAD", sp.Name, err)
			}
			if sp.Tags["quick"] {
				q++
			}
			if len(os.Args) > 2 && strings.Contains(sp.Name, os.Args[2]) {
				fmt.Println(sp.Name, "\n   ", sp.Text)
			}
		}
		fmt.Printf("%d templates (%d quick)\n", len(specs), q)
	case "try":
		e := loadDefault()
		fmt.Println("loaded in", loadTime)
		tpl, err := ParseTemplate("L0", os.Args[3])
		if err != nil {
			fmt.Println(err)
			os.Exit(2)
		}
		params := map[string]string{}
		for _, kv := range os.Args[4:] {
			if i := strings.Index(kv, "="); i > 0 {
				params[kv[:i]] = kv[i+1:]
			}
		}
		job := &Job{Name: "try", Harness: os.Args[2], Lines: map[string]*Template{"L0": tpl}, Params: params}
		t0 := time.Now()
		jr := e.RunJob(job, 16)
		fmt.Printf("%d paths in %v\n", len(jr.Paths), time.Since(t0))
		for _, p := range jr.Paths {
			fmt.Printf("path %v end=%s %s steps=%d decided=%d unk=%d reached=%v\n", p.Trail, p.End, trunc(p.Msg, 300), p.Steps, p.Decided, p.UnknownFeas, p.Reached)
			for _, ev := range p.Events {
				if ev.Kind == "emit" {
					fmt.Printf("   emit %s\n", trunc(show(ev.Args[0]), 600))
				}
			}
			for _, ob := range p.Obligations {
				fmt.Printf("   ob %s: %s %s\n", ob.ID, ob.Result, trunc(ob.Details, 200))
				if ob.Model != nil {
					fmt.Printf("      model %v %v\n", ob.Model.Str, ob.Model.Bool)
				}
			}
			for _, n := range p.Notes {
				fmt.Printf("   note %s\n", n)
			}
			if os.Getenv("GOSYM_SHOWPC") != "" {
				for _, t := range p.PC {
					fmt.Printf("   pc %s\n", trunc(t.SMT(), 300))
				}
			}
		}
		printSolverStats()
	case "replay":
		// re-runs the concrete input of a replay file on the real build
		b, err := os.ReadFile(os.Args[2])
		if err != nil {
			fmt.Fprintln(os.Stderr, err)
			os.Exit(2)
		}
		var r struct {
			Property   string       `json:"property"`
			Harness    string       `json:"harness"`
			Obligation string       `json:"obligation"`
			Model      *NativeModel `json:"model"`
		}
		if err := json.Unmarshal(b, &r); err != nil || r.Model == nil || r.Harness == "" {
			fmt.Fprintln(os.Stderr, "not a replayable file (no harness/model):", err)
			os.Exit(2)
		}
		outs, err := RunNative([]NativeCase{{Harness: r.Harness, Model: r.Model}})
		if err != nil {
			fmt.Fprintln(os.Stderr, err)
			os.Exit(2)
		}
		ob, _ := json.MarshalIndent(outs[0], "", " ")
		fmt.Println(string(ob))
		failed := outs[0].Panic != "" && r.Obligation == "implicit/no-panic"
		for _, f := range outs[0].Failed {
			if f == r.Obligation {
				failed = true
			}
		}
		if failed {
			fmt.Printf("VIOLATION property=%s replay=%s\n", r.Property, os.Args[2])
			os.Exit(1)
		}
		fmt.Println("not reproduced on the current tree")
	case "check":
		fs := flag.NewFlagSet("check", flag.ExitOnError)
		tier := fs.String("tier", "quick", "quick|thorough")
		fs.Parse(os.Args[3:])
		os.Exit(runCheck(os.Args[2], *tier))
	default:
		fmt.Fprintln(os.Stderr, "unknown command")
		os.Exit(2)
	}
}

func printSolverStats() {
	if debugCallers {
		printCallerStats()
	}
	fmt.Printf("init: %.2fs total, %d steps\n", float64(initNanos)/1e9, initSteps)
	fmt.Printf("query cache hits: %d\n", cacheHits)
	fmt.Printf("decided by key-domain reasoning without solver: %d\n", domainDecided)
	for name, st := range solverStats {
		fmt.Printf("solver %s: %d queries (sat %d unsat %d unknown %d) %.2fs\n", name, st.Queries, st.Sat, st.Unsat, st.Unknown, float64(st.TimeNanos)/1e9)
	}
}
