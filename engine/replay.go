package main

import (
	"encoding/json"
	"fmt"
	"os"
	"os/exec"
	"path/filepath"
	"sort"
	"strings"
	"time"
)

type NativeModel struct {
	Strings   map[string]string              `json:"strings"`
	Bools     map[string]bool                `json:"bools"`
	Ints      map[string]int64               `json:"ints"`
	Lines     map[string]string              `json:"lines"`
	Holes     map[string]map[string][]string `json:"holes"`
	BoolHoles map[string][]bool              `json:"bool_holes"`
	Params    map[string]string              `json:"params"`
	HolePos   map[string]map[string][][2]string `json:"hole_pos"` // line -> "leaf"|"key" -> [path,class]
}

type NativeCase struct {
	Harness string       `json:"harness"`
	Model   *NativeModel `json:"model"`
}

type NativeOutcome struct {
	Failed   []string `json:"failed"`
	Reached  []string `json:"reached"`
	AssumeKO bool     `json:"assume_ko"`
	Emitted  []string `json:"emitted"`
	Panic    string   `json:"panic"`
}

var (
	repoDir    = "/repo"
	harnessDir = "/verif/harness"
	goBinPath  = "/root/go/pkg/mod/golang.org/toolchain@v0.0.1-go1.24.3.linux-amd64/bin"
)

func harnessOverlay() map[string]string {
	out := map[string]string{}
	files, _ := filepath.Glob(harnessDir + "/zz_verif_*.go")
	for _, f := range files {
		out[repoDir+"/src/"+filepath.Base(f)] = f
	}
	return out
}

func goEnv() []string {
	env := os.Environ()
	for i, e := range env {
		if strings.HasPrefix(e, "PATH=") {
			env[i] = "PATH=" + goBinPath + ":" + e[5:]
		}
	}
	return append(env, "GOFLAGS=-mod=mod", "GOPROXY=off", "GOTOOLCHAIN=local", "CGO_ENABLED=0")
}

// RunNative executes cases on the real build (go test with the harness overlay).
func RunNative(cases []NativeCase) ([]NativeOutcome, error) {
	if len(cases) == 0 {
		return nil, nil
	}
	dir, err := os.MkdirTemp("", "gosym-replay-")
	if err != nil {
		return nil, err
	}
	defer os.RemoveAll(dir)
	ov := struct{ Replace map[string]string }{harnessOverlay()}
	ob, _ := json.Marshal(ov)
	os.WriteFile(dir+"/overlay.json", ob, 0644)
	cb, _ := json.Marshal(cases)
	os.WriteFile(dir+"/batch.json", cb, 0644)
	cmd := exec.Command("go", "test", "-tags", "verif", "-vet=off", "-count=1", "-overlay", dir+"/overlay.json", "-run", "^TestVerifReplay$", "-timeout", "20m", "./src")
	cmd.Dir = repoDir
	cmd.Env = append(goEnv(), "VERIF_BATCH="+dir+"/batch.json", "VERIF_OUT="+dir+"/out.json", "GOCACHE="+goCacheDir())
	t0 := time.Now()
	outb, err := cmd.CombinedOutput()
	nativeTime += time.Since(t0)
	rb, rerr := os.ReadFile(dir + "/out.json")
	if rerr != nil {
		return nil, fmt.Errorf("native replay failed: %v\n%s", err, outb)
	}
	var res []NativeOutcome
	if err := json.Unmarshal(rb, &res); err != nil {
		return nil, err
	}
	return res, nil
}

var nativeTime time.Duration

func goCacheDir() string {
	if d := os.Getenv("GOCACHE"); d != "" {
		return d
	}
	h, _ := os.UserCacheDir()
	return h + "/go-build"
}

// BuildNativeModel evaluates the harness inputs of a path under a solver model.
func BuildNativeModel(job *Job, inputs map[string]Value, mod *Model) *NativeModel {
	nm := &NativeModel{Strings: map[string]string{}, Bools: map[string]bool{}, Ints: map[string]int64{},
		Lines: map[string]string{}, Holes: map[string]map[string][]string{}, BoolHoles: map[string][]bool{}, Params: job.Params}
	names := make([]string, 0, len(inputs))
	for n := range inputs {
		names = append(names, n)
	}
	sort.Strings(names)
	for _, n := range names {
		switch v := inputs[n].(type) {
		case Str:
			r, err := mod.Eval(v.Term())
			if err == nil {
				nm.Strings[n] = r.(string)
			}
		case bool:
			nm.Bools[n] = v
		case *Term:
			r, err := mod.Eval(v)
			if err == nil {
				nm.Bools[n] = r.(bool)
			}
		case Num:
			if v.t == nil {
				nm.Ints[n] = v.c
			} else if r, err := mod.Eval(v.t); err == nil {
				switch x := r.(type) {
				case int64:
					nm.Ints[n] = x
				case uint64:
					nm.Ints[n] = int64(x)
				}
			}
		}
	}
	for ln, tpl := range job.Lines {
		strs := map[string]string{}
		bools := map[string]bool{}
		nm.Holes[ln] = map[string][]string{}
		for _, h := range tpl.Holes {
			key := holeKey(job, ln, h.Name, h.Class)
			if h.Class == "B" {
				bools[h.Name] = nm.Bools[key]
				nm.BoolHoles[ln] = append(nm.BoolHoles[ln], nm.Bools[key])
				continue
			}
			v, ok := nm.Strings[key]
			if !ok {
				v = mod.Str[key]
			}
			if h.Class == "N" && !isJSONNumber(v) {
				v = "0"
			}
			strs[h.Name] = v
			nm.Holes[ln][h.Class] = append(nm.Holes[ln][h.Class], v)
		}
		nm.Lines[ln] = tpl.Instantiate(strs, bools)
		if nm.HolePos == nil {
			nm.HolePos = map[string]map[string][][2]string{}
		}
		nm.HolePos[ln] = map[string][][2]string{"leaf": {}, "key": {}}
		for _, hp := range tpl.HolePositions() {
			k := "leaf"
			if hp.IsKey {
				k = "key"
			}
			nm.HolePos[ln][k] = append(nm.HolePos[ln][k], [2]string{hp.Path, hp.Class})
		}
	}
	return nm
}
