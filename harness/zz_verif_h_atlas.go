//go:build verif

package main

import (
	"context"
	"errors"
	"fmt"
	"io"
	"net/http"
	"os"
	"regexp"
	"strings"
)

func init() {
	verifHarnesses["H_atlas"] = H_atlas
	verifHarnesses["H_c16_dates"] = H_c16_dates
}

// verifBody: a scripted response body (optionally cut by a connection error).
type verifBody struct {
	content string
	err     error
	r       *strings.Reader
}

func (b *verifBody) Read(p []byte) (int, error) {
	if b.r == nil {
		c := b.content
		if b.err != nil {
			c = c[:len(c)/2]
		}
		b.r = strings.NewReader(c)
	}
	n, err := b.r.Read(p)
	if err == io.EOF && b.err != nil {
		return n, b.err
	}
	return n, err
}
func (b *verifBody) Close() error { return nil }

// verifRT: the fake Atlas endpoint as the base transport under the digest transport.
// Behaviour of every answer is chosen by the solver (natively: taken from the model).
type verifRT struct {
	basic     bool // the challenge asks for Basic authentication (the digest client must refuse it)
	challenge bool
	answered  int      // number of non-challenge answers given so far (0: cluster lookup, i: host i-1)
	reqs      []string // every request seen, in order
	bodies    []string // body served for host i
}

func verifAuthScheme(a string) string {
	if a == "" {
		return "none"
	}
	if strings.HasPrefix(a, "Digest ") {
		return "digest"
	}
	return "other:" + a
}

func (t *verifRT) RoundTrip(req *http.Request) (*http.Response, error) {
	auth := req.Header.Get("Authorization")
	t.reqs = append(t.reqs, req.Method+" "+verifReqURL(req)+" auth="+verifAuthScheme(auth))
	if t.challenge && auth == "" {
		h := http.Header{}
		if t.basic {
			h.Set("Www-Authenticate", `Basic realm="MMS Public API"`)
		} else {
			h.Set("Www-Authenticate", `Digest realm="MMS Public API", domain="", nonce="9c6fbe1dd1f9a0f3", algorithm=MD5, qop="auth", stale=false`)
		}
		return &http.Response{StatusCode: 401, Header: h, Body: &verifBody{content: "unauthorized"}}, nil
	}
	i := t.answered
	t.answered++
	name := "answer" + verifItoa(i)
	switch verifChoose(name, 4) {
	case 1:
		return nil, errors.New("connection reset by peer")
	case 2:
		return &http.Response{StatusCode: 500, Header: http.Header{}, Body: &verifBody{content: verifString(name + ".errbody")}}, nil
	case 3:
		if i > 0 {
			// connection cut mid-body
			return &http.Response{StatusCode: 200, Header: http.Header{}, Body: &verifBody{content: verifString(name + ".body"), err: io.ErrUnexpectedEOF /* what net/http reports for a body shorter than announced */}}, nil
		}
		return &http.Response{StatusCode: 404, Header: http.Header{}, Body: &verifBody{content: verifString(name + ".errbody")}}, nil
	}
	body := ""
	if i > 0 {
		body = verifString(name + ".body")
		t.bodies = append(t.bodies, body)
	} else {
		body = verifClusterBody()
	}
	return &http.Response{StatusCode: 200, Header: http.Header{}, Body: &verifBody{content: body}}, nil
}

// H_atlas: DownloadClusterLogs against the fake endpoint. One harness serves
// C16 (exact requests, bytes stored verbatim), C17 (no temp file left on failure) and
// C20 (the private key reaches nothing but the digest response).
func H_atlas() {
	tmp := verifScratchTempDir()
	pub, priv := verifString("publicKey"), verifString("privateKey")
	proj, cluster := verifString("projectId"), verifString("clusterName")
	start, end := verifInt("start"), verifInt("end")
	verifAssume(priv != "" && pub != "")
	// identifiers and keys are URL-safe tokens (stated bound; keeps native requests well-formed)
	// (the private key never belongs in a URL or header, so it is an arbitrary non-empty string)
	verifAssume(verifTokenRe.MatchString(pub) && verifTokenRe.MatchString(proj) && verifTokenRe.MatchString(cluster))
	verifAssume(start >= 0 && end >= 0)
	ck := verifChoose("challenge", 3) // 0: none, 1: Digest, 2: Basic
	rt := &verifRT{challenge: ck != 0, basic: ck == 2}
	client := &AtlasClient{BaseURL: atlasAPIBaseURL, HTTPClient: &http.Client{Transport: rt}}
	verifCaptureStdio(true)
	files, err := client.DownloadClusterLogs(context.Background(), pub, priv, proj, cluster, start, end)
	out := verifCaptureStdio(false)
	verifReach("emitted")
	for _, r := range rt.reqs {
		verifEmit(r)
	}
	// ---- C20: the private key is used only inside the digest response ----
	for i, r := range rt.reqs {
		verifAssert(!verifLeaks(r, priv), "private-key-in-request"+verifItoa(i))
	}
	verifAssert(!verifLeaks(out, priv), "private-key-in-stdout-stderr")
	if err != nil {
		verifAssert(!verifLeaks(err.Error(), priv), "private-key-in-error")
	}
	if !rt.challenge || rt.basic {
		// without a digest challenge no credential material is sent at all
		for i, r := range rt.reqs {
			verifAssert(strings.HasSuffix(r, " auth=none"), "no-credentials-without-challenge"+verifItoa(i))
			verifAssert(!verifLeaks(r, pub) || verifLeaks(proj+cluster, pub), "public-key-without-challenge"+verifItoa(i))
		}
	}
	// ---- C17: no downloaded file outlives a failed download ----
	if err != nil {
		verifAssert(verifTempLeftovers(tmp) == 0, "temp-files-left-after-failure")
		verifAssert(len(files) == 0, "no-files-returned-on-failure")
		return
	}
	// ---- C16: exactly the requested logs ----
	base := "https://cloud.mongodb.com"
	var want []string
	clusterURL := fmt.Sprintf("%s/api/atlas/v2/groups/%s/clusters/%s", base, proj, cluster)
	add := func(u string) {
		if rt.challenge {
			want = append(want, "GET "+u+" auth=none")
			want = append(want, "GET "+u+" auth=digest")
		} else {
			want = append(want, "GET "+u+" auth=none")
		}
	}
	add(clusterURL)
	hosts := verifScriptHosts()
	for _, h := range hosts {
		add(fmt.Sprintf("%s/api/atlas/v2/groups/%s/clusters/%s/logs/mongodb.gz?endDate=%d&startDate=%d", base, proj, h, end, start))
	}
	verifAssert(len(rt.reqs) == len(want), "request-count")
	if len(rt.reqs) == len(want) {
		for i := range want {
			verifAssert(rt.reqs[i] == want[i], "request"+verifItoa(i))
		}
	}
	verifAssert(len(files) == len(hosts), "one-file-per-host")
	if len(files) == len(hosts) && len(rt.bodies) == len(hosts) {
		for i, f := range files {
			verifAssert(verifFileContent(f) == rt.bodies[i], "bytes-stored-verbatim"+verifItoa(i))
		}
	}
	verifAssert(verifTempLeftovers(tmp) == len(hosts), "only-the-returned-files-exist")
	// cleanup helper removes them all
	derr := client.DeleteClusterLogs(context.Background(), files)
	verifAssert(derr == nil && verifTempLeftovers(tmp) == 0, "delete-removes-all")
}

// H_c16_dates: the download window.
func H_c16_dates() {
	s, e := verifInt("flagStart"), verifInt("flagEnd")
	// the CLI guarantees: both given or both absent
	verifAssume((s == 0) == (e == 0))
	SetAtlasLogStartDate(s)
	SetAtlasLogEndDate(e)
	gs, ge := GetStartAndEndDates()
	verifReach("emitted")
	if s == 0 {
		verifAssert(ge-gs == 7*24*60*60, "default-window-is-seven-days")
		verifAssert(gs < ge, "start-before-end")
	} else {
		verifAssert(gs == s && ge == e, "given-window-used")
	}
}

var verifTokenRe = regexp.MustCompile(`^[A-Za-z0-9_-]+$`)
var verifHostRe = regexp.MustCompile(`^[a-z0-9]([a-z0-9.-]*[a-z0-9])?$`)

// ---- native counterparts of the executor's intrinsics ----

// verifClusterBody: the cluster description the fake endpoint serves (natively built from
// the model's host list; symbolically an arbitrary body behind the json / connstring contracts).
func verifClusterBody() string {
	if verifInt("cs.jsonbad") == 1 {
		return "<html>not json</html>"
	}
	if verifInt("cs.fail") == 1 {
		return `{"connectionStrings":{"standard":"not a mongodb uri"}}`
	}
	scheme := "mongodb"
	if verifInt("cs.srv") == 1 {
		scheme = "mongodb+srv"
	}
	var hs []string
	for i := 0; i < verifInt("cs.n"); i++ {
		h := verifString("host" + verifItoa(i))
		if verifInt("host"+verifItoa(i)+".port") == 1 {
			h += ":27017"
		}
		hs = append(hs, h)
	}
	if scheme == "mongodb+srv" && len(hs) > 1 {
		hs = hs[:1]
	}
	return `{"connectionStrings":{"standard":"` + scheme + `://` + strings.Join(hs, ",") + `/?ssl=true"}}`
}


func verifReqURL(req *http.Request) string { return req.URL.String() }

var verifStdioSaved [2]*os.File
var verifStdioFile *os.File

// verifCaptureStdio(true) redirects stdout/stderr into a scratch file; (false) restores them and returns what was written.
func verifCaptureStdio(on bool) string {
	if on {
		f, err := os.CreateTemp(os.Getenv("VERIF_SCRATCH"), "stdio-*")
		if err != nil {
			panic(err)
		}
		verifStdioSaved = [2]*os.File{os.Stdout, os.Stderr}
		verifStdioFile = f
		os.Stdout, os.Stderr = f, f
		return ""
	}
	os.Stdout, os.Stderr = verifStdioSaved[0], verifStdioSaved[1]
	name := verifStdioFile.Name()
	verifStdioFile.Close()
	b, _ := os.ReadFile(name)
	os.Remove(name)
	return string(b)
}

// verifScratchTempDir points TMPDIR at a fresh scratch directory (downloads land there).
func verifScratchTempDir() string {
	d, err := os.MkdirTemp("", "verif-atlas-")
	if err != nil {
		panic(err)
	}
	os.Setenv("TMPDIR", d)
	return d
}

func verifTempLeftovers(dir string) int {
	es, _ := os.ReadDir(dir)
	n := 0
	for _, e := range es {
		if strings.HasPrefix(e.Name(), "mongod_") {
			n++
		}
	}
	return n
}

func verifFileContent(name string) string {
	b, _ := os.ReadFile(name)
	return string(b)
}

// verifScriptHosts: the member hosts (ports stripped) the scripted cluster description names.
func verifScriptHosts() []string {
	n := verifInt("cs.n")
	var out []string
	for i := 0; i < n; i++ {
		out = append(out, verifString("host"+verifItoa(i)))
	}
	return out
}
