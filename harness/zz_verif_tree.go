//go:build verif

package main

// Independent tree oracle used by the shape / zone / placeholder / namespace checks:
// an ordered JSON parser of its own (not the repository's), a converter of the
// redactor's result values, and a reference serialiser.

import (
	"bytes"
	"encoding/json"

	"github.com/elliotchance/orderedmap/v3"
)

const (
	vObj = iota
	vArr
	vStr
	vNum
	vBool
	vNull
	vOther
)

type verifNode struct {
	kind  int
	keys  []string
	kids  []*verifNode
	s     string // string content / number text
	b     bool
	path  string   // index path from the root ("7.4.1")
	kpath []string // key path from the root (array elements: "#")
	cls   string   // hole class of a leaf ("" = constant text)
}

func verifChildPath(p string, i int) string {
	if p == "" {
		return verifItoa(i)
	}
	return p + "." + verifItoa(i)
}

func verifKP(kp []string, k string) []string {
	out := make([]string, len(kp)+1)
	copy(out, kp)
	out[len(kp)] = k
	return out
}

// verifParseLine parses a line with an independent ordered parser. ok=false: not a JSON object.
func verifParseLine(line string) (*verifNode, bool) {
	dec := json.NewDecoder(bytes.NewReader([]byte(line)))
	dec.UseNumber()
	n, ok := verifParseValue(dec, "", nil)
	if !ok || n.kind != vObj {
		return nil, false
	}
	return n, true
}

func verifParseValue(dec *json.Decoder, path string, kp []string) (*verifNode, bool) {
	tok, err := dec.Token()
	if err != nil {
		return nil, false
	}
	n := &verifNode{path: path, kpath: kp}
	switch t := tok.(type) {
	case json.Delim:
		if t == '{' {
			n.kind = vObj
			for i := 0; dec.More(); i++ {
				kt, err := dec.Token()
				if err != nil {
					return nil, false
				}
				k, isStr := kt.(string)
				if !isStr {
					return nil, false
				}
				kid, ok := verifParseValue(dec, verifChildPath(path, i), verifKP(kp, k))
				if !ok {
					return nil, false
				}
				n.keys = append(n.keys, k)
				n.kids = append(n.kids, kid)
			}
			if _, err := dec.Token(); err != nil {
				return nil, false
			}
			return n, true
		}
		if t == '[' {
			n.kind = vArr
			for i := 0; dec.More(); i++ {
				kid, ok := verifParseValue(dec, verifChildPath(path, i), verifKP(kp, "#"))
				if !ok {
					return nil, false
				}
				n.kids = append(n.kids, kid)
			}
			if _, err := dec.Token(); err != nil {
				return nil, false
			}
			return n, true
		}
		return nil, false
	case string:
		n.kind = vStr
		n.s = t
	case json.Number:
		n.kind = vNum
		n.s = string(t)
	case bool:
		n.kind = vBool
		n.b = t
	case nil:
		n.kind = vNull
	default:
		n.kind = vOther
	}
	return n, true
}

// verifTreeOf converts a value produced by the redactor into a verifNode.
func verifTreeOf(v any, path string, kp []string) *verifNode {
	n := &verifNode{path: path, kpath: kp}
	switch t := v.(type) {
	case *orderedmap.OrderedMap[string, any]:
		n.kind = vObj
		if t == nil {
			n.kind = vOther
			return n
		}
		i := 0
		for el := t.Front(); el != nil; el = el.Next() {
			n.keys = append(n.keys, el.Key)
			n.kids = append(n.kids, verifTreeOf(el.Value, verifChildPath(path, i), verifKP(kp, el.Key)))
			i++
		}
	case []any:
		n.kind = vArr // an empty JSON array is parsed into a nil slice; it must be written back as []
		for i, e := range t {
			n.kids = append(n.kids, verifTreeOf(e, verifChildPath(path, i), verifKP(kp, "#")))
		}
	case string:
		n.kind = vStr
		n.s = t
	case json.Number:
		n.kind = vNum
		n.s = string(t)
	case float64:
		n.kind = vNum
		b, err := json.Marshal(t)
		if err != nil {
			n.kind = vOther
		}
		n.s = string(b)
	case bool:
		n.kind = vBool
		n.b = t
	case nil:
		n.kind = vNull
	default:
		n.kind = vOther
	}
	return n
}

// verifSerialize: reference serialiser (compact JSON, insertion order).
func verifSerialize(n *verifNode) string {
	switch n.kind {
	case vObj:
		s := "{"
		for i, k := range n.keys {
			if i > 0 {
				s += ","
			}
			kb, _ := json.Marshal(k)
			s += string(kb) + ":" + verifSerialize(n.kids[i])
		}
		return s + "}"
	case vArr:
		s := "["
		for i, k := range n.kids {
			if i > 0 {
				s += ","
			}
			s += verifSerialize(k)
		}
		return s + "]"
	case vStr:
		b, _ := json.Marshal(n.s)
		return string(b)
	case vNum:
		return n.s
	case vBool:
		if n.b {
			return "true"
		}
		return "false"
	case vNull:
		return "null"
	}
	return "<unserialisable>"
}

func verifKid(n *verifNode, key string) *verifNode {
	if n == nil || n.kind != vObj {
		return nil
	}
	for i, k := range n.keys {
		if k == key {
			return n.kids[i]
		}
	}
	return nil
}

func verifStrOf(n *verifNode) string {
	if n == nil || n.kind != vStr {
		return ""
	}
	return n.s
}

// verifClassMap: index path -> hole class for the hole-bearing leaves / keys of a template line.
func verifClassMap(line, kind string) map[string]string {
	m := map[string]string{}
	ps, cs := verifHolePaths(line, kind), verifHoleClasses(line, kind)
	for i := range ps {
		m[ps[i]] = cs[i]
	}
	return m
}

func verifIn(list []string, s string) bool {
	for _, x := range list {
		if x == s {
			return true
		}
	}
	return false
}

// ---- zones (written from the property text and the README, not from the code) ----

var verifCmdDocKeys = []string{"command", "cmd", "originatingCommand"}
var verifValueZoneKeys = []string{"query", "filter", "sort", "update", "updates", "q", "u", "deletes", "pipeline", "documents", "arrayFilters"}
var verifNsCmdKeys = []string{"ns", "aggregate", "insert", "find", "update", "collection", "delete", "$db", "count", "findAndModify",
	"findOneAndDelete", "replace", "findOneAndReplace", "findOneAndUpdate", "getIndexes", "countDocuments", "distinct"}

// verifGated: the line reports a command / query / write.
func verifGated(root *verifNode) bool {
	c := verifStrOf(verifKid(root, "c"))
	msg := verifStrOf(verifKid(root, "msg"))
	return c == "COMMAND" || c == "QUERY" || c == "WRITE" || msg == "Slow query"
}

// verifInValueZone: the position lies inside a query-bearing field of a command document.
func verifInValueZone(gated bool, kp []string) bool {
	return gated && len(kp) >= 3 && kp[0] == "attr" && verifIn(verifCmdDocKeys, kp[1]) && verifIn(verifValueZoneKeys, kp[2])
}
