//go:build verif

package main

import (
	"encoding/base64"
	"regexp"
	"strings"
)

func init() {
	verifHarnesses["H_c03"] = H_c03
	verifHarnesses["H_c04"] = H_c04
	verifHarnesses["H_c05"] = H_c05
}

type verifRun struct {
	in, out *verifNode
	text    string
	gated   bool
}

// verifRunTree: one line through the real redactor and serialiser, with the input parsed
// by the independent parser. Returns nil if the line was not emitted.
func verifRunTree(name string) *verifRun {
	// literals of class S are not field-path references ('$...' strings are spelled out
	// in the templates themselves, with a symbolic remainder)
	verifAssumeLiterals(name)
	line := verifLine(name)
	in, ok := verifParseLine(line)
	verifAssume(ok)
	verifAssumeDistinctSiblings(in)
	out, err := RedactMongoLog(line)
	verifAssert(err == nil, "object-line-accepted")
	if err != nil {
		return nil
	}
	b, merr := MarshalOrdered(out)
	verifAssert(merr == nil, "object-line-serialised")
	if merr != nil {
		return nil
	}
	r := &verifRun{in: in, out: verifTreeOf(out, "", nil), text: string(b), gated: verifGated(in)}
	verifEmit(r.text)
	verifReach("emitted")
	return r
}

// verifAssumeLiterals: sensitive literals are not field-path references.
func verifAssumeLiterals(name string) {
	for _, cl := range verifSecretClasses {
		for _, s := range verifHoles(name, cl) {
			verifAssume(!strings.HasPrefix(s, "$"))
			if verifParam("nonEmpty") == "yes" {
				verifAssume(s != "") // bound of the quick tier of some checks (stated in their evidence)
			}
		}
	}
}

// verifAssumeDistinctSiblings: the properties are stated for lines without duplicate sibling keys.
func verifAssumeDistinctSiblings(n *verifNode) {
	if n.kind == vObj {
		for i := range n.keys {
			for j := i + 1; j < len(n.keys); j++ {
				verifAssume(n.keys[i] != n.keys[j])
			}
		}
	}
	for _, k := range n.kids {
		verifAssumeDistinctSiblings(k)
	}
}

// ---- C03: shape ----

func verifShape(a, b *verifNode, keysToo bool) bool {
	if a.kind != b.kind {
		verifAssert(false, "kind@"+a.path)
		return false
	}
	ok := true
	switch a.kind {
	case vObj:
		if len(a.kids) != len(b.kids) {
			verifAssert(false, "members@"+a.path)
			return false
		}
		for i := range a.kids {
			if keysToo {
				verifAssert(a.keys[i] == b.keys[i], "key@"+a.kids[i].path)
			}
			if !verifShape(a.kids[i], b.kids[i], keysToo) {
				ok = false
			}
		}
	case vArr:
		if len(a.kids) != len(b.kids) {
			verifAssert(false, "length@"+a.path)
			return false
		}
		for i := range a.kids {
			if !verifShape(a.kids[i], b.kids[i], keysToo) {
				ok = false
			}
		}
	}
	return ok
}

// H_c03: the emitted line is the faithful serialisation of a tree with the input's shape.
func H_c03() {
	verifConfigSym()
	verifAssumeSimpleNames("L0")
	r := verifRunTree("L0")
	if r == nil {
		return
	}
	verifAssert(r.text == verifSerialize(r.out), "serialised-faithfully")
	verifShape(r.in, r.out, true)
}

// ---- C04: nothing outside the zones changes ----

func verifLeafEqual(a, b *verifNode, id string) {
	if a.kind != b.kind {
		verifAssert(false, id)
		return
	}
	switch a.kind {
	case vStr, vNum:
		verifAssert(a.s == b.s, id)
	case vBool:
		verifAssert(a.b == b.b, id)
	}
}

func verifIsNsPos(gated bool, kp []string) bool {
	if len(kp) == 2 && kp[0] == "attr" && kp[1] == "ns" {
		return true
	}
	return gated && len(kp) == 3 && kp[0] == "attr" && verifIn(verifCmdDocKeys, kp[1]) && verifIn(verifNsCmdKeys, kp[2])
}

func verifZones(a, b *verifNode, gated bool, cls map[string]string, fNs, fIP, eager bool) {
	if a.kind != b.kind {
		verifAssert(false, "kind@"+a.path)
		return
	}
	switch a.kind {
	case vObj, vArr:
		if len(a.kids) != len(b.kids) {
			verifAssert(false, "members@"+a.path)
			return
		}
		for i := range a.kids {
			if a.kind == vObj && !eager {
				verifAssert(a.keys[i] == b.keys[i], "key@"+a.kids[i].path)
			}
			verifZones(a.kids[i], b.kids[i], gated, cls, fNs, fIP, eager)
		}
		return
	}
	kp := a.kpath
	c := cls[a.path]
	if c == "XN" || c == "XS" {
		// operational parameters inside the zones are kept as they are
		verifLeafEqual(a, b, "operational@"+a.path)
		return
	}
	if verifInValueZone(gated, kp) {
		return
	}
	if fNs && verifIsNsPos(gated, kp) {
		return
	}
	if fIP && len(kp) == 2 && kp[0] == "attr" && kp[1] == "remote" {
		return
	}
	if eager && gated && len(kp) == 2 && kp[0] == "attr" && kp[1] == "planSummary" {
		return
	}
	verifLeafEqual(a, b, "outside-zone@"+a.path)
}

func H_c04() {
	verifConfigSym()
	verifAssumeSimpleNames("L0")
	r := verifRunTree("L0")
	if r == nil {
		return
	}
	verifZones(r.in, r.out, r.gated, verifClassMap("L0", "leaf"), verifBool("redactNamespaces"), verifBool("redactIPs"), verifParam("eager") == "on")
	// "emitted with identical keys, order, string contents and exact number literals": what is compared
	// above is the result tree; the emitted bytes must be exactly that tree
	verifAssert(r.text == verifSerialize(r.out), "emitted-text-is-the-tree")
}

// ---- C05: type-aware placeholders ----

// the WHATWG / HTML5 definition of a valid e-mail address (the README's "e-mail shaped")
var verifSpecEmailRe = regexp.MustCompile(`^[a-zA-Z0-9.!#$%&'*+/=?^_` + "`" + `{|}~-]+@[a-zA-Z0-9](?:[a-zA-Z0-9-]{0,61}[a-zA-Z0-9])?(?:\.[a-zA-Z0-9](?:[a-zA-Z0-9-]{0,61}[a-zA-Z0-9])?)*$`)

func verifSpecEmail(s string) bool {
	return len(s) >= 3 && len(s) <= 254 && verifSpecEmailRe.MatchString(s)
}

func verifDigits(s string) bool {
	for i := 0; i < len(s); i++ {
		if s[i] < '0' || s[i] > '9' {
			return false
		}
	}
	return len(s) > 0
}

// verifISOInstant: YYYY-MM-DDTHH:MM:SS[.fff](Z|+HH:MM|-HH:MM) with fields in range.
func verifISOInstant(s string) bool {
	if len(s) < 20 || s[4] != '-' || s[7] != '-' || s[10] != 'T' || s[13] != ':' || s[16] != ':' {
		return false
	}
	if !verifDigits(s[0:4]) || !verifDigits(s[5:7]) || !verifDigits(s[8:10]) || !verifDigits(s[11:13]) || !verifDigits(s[14:16]) || !verifDigits(s[17:19]) {
		return false
	}
	if s[5:7] < "01" || s[5:7] > "12" || s[8:10] < "01" || s[8:10] > "31" || s[11:13] > "23" || s[14:16] > "59" || s[17:19] > "59" {
		return false
	}
	rest := s[19:]
	if rest[0] == '.' {
		i := 1
		for i < len(rest) && rest[i] >= '0' && rest[i] <= '9' {
			i++
		}
		if i == 1 {
			return false
		}
		rest = rest[i:]
	}
	if rest == "Z" {
		return true
	}
	return len(rest) == 6 && (rest[0] == '+' || rest[0] == '-') && verifDigits(rest[1:3]) && rest[3] == ':' && verifDigits(rest[4:6])
}

func verifHex24(s string) bool {
	if len(s) != 24 {
		return false
	}
	for i := 0; i < len(s); i++ {
		c := s[i]
		if !((c >= '0' && c <= '9') || (c >= 'a' && c <= 'f') || (c >= 'A' && c <= 'F')) {
			return false
		}
	}
	return true
}

func verifPlaceholders(a, b *verifNode, cls map[string]string, repl string, fNum, fBool bool) {
	if a.kind != b.kind && (a.kind == vObj || a.kind == vArr || b.kind == vObj || b.kind == vArr) {
		return // shape violations are C03's business
	}
	switch a.kind {
	case vObj, vArr:
		if len(a.kids) != len(b.kids) {
			return
		}
		if a.kind == vObj && len(a.kpath) > 0 && a.kpath[len(a.kpath)-1] == "$binary" {
			st0, st1 := verifKid(a, "subType"), verifKid(b, "subType")
			if st0 != nil {
				verifAssert(st1 != nil && st1.kind == st0.kind && st1.s == st0.s, "subType-kept@"+a.path)
			}
		}
		for i := range a.kids {
			verifPlaceholders(a.kids[i], b.kids[i], cls, repl, fNum, fBool)
		}
		return
	}
	id := a.path
	switch cls[a.path] {
	case "S":
		if strings.HasPrefix(a.s, "$") {
			return // field-path reference: outside the claim
		}
		if verifSpecEmail(a.s) {
			verifAssert(b.kind == vStr && verifSpecEmail(b.s), "email-class@"+id)
		} else {
			verifAssert(b.kind == vStr && b.s == repl, "replacement-text@"+id)
		}
	case "D":
		verifAssert(b.kind == vStr && b.s == RedactedISODate, "date-placeholder@"+id)
	case "O":
		verifAssert(b.kind == vStr && b.s == RedactedObjectId, "oid-placeholder@"+id)
	case "B64":
		verifAssert(b.kind == vStr && b.s == RedactedUUID, "binary-placeholder@"+id)
	case "N":
		if fNum {
			verifAssert(b.kind == vNum && b.s == "0", "number-placeholder@"+id)
		} else {
			verifAssert(b.kind == vNum && b.s == a.s, "number-kept@"+id)
		}
	case "B":
		if fBool {
			verifAssert(b.kind == vBool && !b.b, "boolean-placeholder@"+id)
		} else {
			verifAssert(b.kind == vBool && b.b == a.b, "boolean-kept@"+id)
		}
	}
}

func H_c05() {
	verifConfigSym()
	verifAssumeSimpleNames("L0")
	// the class placeholders are valid members of their class (closed facts about the constants)
	verifAssert(verifISOInstant(RedactedISODate), "const-date-valid")
	verifAssert(verifHex24(RedactedObjectId), "const-oid-valid")
	_, b64err := base64.StdEncoding.DecodeString(RedactedUUID)
	verifAssert(b64err == nil && len(RedactedUUID) > 0, "const-base64-valid")
	r := verifRunTree("L0")
	if r == nil {
		return
	}
	verifPlaceholders(r.in, r.out, verifClassMap("L0", "leaf"), verifString("replacement"), verifBool("redactNumbers"), verifBool("redactBooleans"))
}
