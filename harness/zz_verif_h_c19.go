//go:build verif

package main

import "strings"

func init() {
	verifHarnesses["H_c19"] = H_c19
}

// H_c19: the emitted line is a fixed point: feeding it back with the same value-redaction
// flags reproduces it byte for byte.
func H_c19() {
	verifConfigSym()
	SetRedactNamespaces(false) // no namespace / field-name pseudonymisation (outside the claim)
	verifAssumeSimpleNames("L0")
	verifAssume(!verifSpecEmail(verifString("replacement")))
	// bound: a replacement text that itself looks like a field-path reference / operator is outside this check
	verifAssume(!strings.HasPrefix(verifString("replacement"), "$"))
	for _, cl := range verifSecretClasses {
		for _, s := range verifHoles("L0", cl) {
			verifAssume(!strings.HasPrefix(s, "$"))
			if verifParam("nonEmpty") == "yes" {
				verifAssume(s != "")
			}
		}
	}
	t1, ok := verifRedactLine(verifLine("L0"))
	verifAssert(ok, "first-pass-emitted")
	if !ok {
		return
	}
	verifEmit(t1)
	t2, ok2 := verifRedactLine(t1)
	verifAssert(ok2, "second-pass-emitted")
	if !ok2 {
		return
	}
	verifEmit(t2)
	verifReach("emitted")
	verifAssert(t2 == t1, "fixed-point")
}
