//go:build verif

package main

import (
	"encoding/base64"
	"os"
	"strings"
)

func init() {
	verifHarnesses["H_c09"] = H_c09
	verifHarnesses["H_c09_b64"] = H_c09_b64
	verifHarnesses["H_c10"] = H_c10
}

func verifKey() []byte {
	key := []byte(verifString("key"))
	verifAssume(len(key) == 64)
	return key
}

// verifDecryptAsCLI: what the decrypt command does with a value and a key file's content.
func verifDecryptAsCLI(value string, keyFileContent string) (string, bool) {
	path := verifTempFile("keyfile", keyFileContent)
	key, err := ReadKeyFromFile(path)
	if err != nil {
		return "", false
	}
	decoded, err := base64.StdEncoding.DecodeString(value)
	if err != nil {
		return "", false
	}
	pt, err := Decrypt(decoded, key)
	if err != nil {
		return "", false
	}
	return string(pt), true
}

// H_c09: an encrypted value decrypts back to exactly the original (any content, any length).
func H_c09() {
	key := verifKey()
	SetEncryptionKey(key)
	SetShouldEncrypt(true)
	s := verifString("plain")
	ct := redactString(s, "placeholder")
	verifEmit(ct)
	verifReach("emitted")
	// the key file exactly as the tool writes it
	stored := base64.StdEncoding.EncodeToString(key)
	got, ok := verifDecryptAsCLI(ct, stored)
	verifAssert(ok, "decrypts")
	verifAssert(got == s, "round-trip-exact")
	// never a wrong plaintext: whatever Decrypt accepts - an arbitrary byte string, or the
	// ciphertext under another key - re-encrypts to exactly what was given (SIV property)
	other := []byte(verifString("otherKey"))
	verifAssume(len(other) == 64)
	raw, _ := base64.StdEncoding.DecodeString(ct)
	if pt, err := Decrypt(raw, other); err == nil {
		re, rerr := Encrypt(pt, other)
		verifAssert(rerr == nil && string(re) == string(raw), "other-key-never-yields-inconsistent-plaintext")
	}
	anyct := []byte(verifString("anyCiphertext"))
	if pt, err := Decrypt(anyct, key); err == nil {
		re, rerr := Encrypt(pt, key)
		verifAssert(rerr == nil && string(re) == string(anyct), "arbitrary-ciphertext-never-yields-inconsistent-plaintext")
	}
	// the emitted text is base64: it passes JSON serialisation unchanged and is one line
	_, derr := base64.StdEncoding.DecodeString(ct)
	verifAssert(derr == nil, "emitted-text-is-base64")
	// "any content" includes strings that are themselves ciphertexts of an earlier run (a redacted
	// value quoted in a later query, a redacted file redacted again): same round trip
	ct2 := redactString(ct, "placeholder")
	verifEmit(ct2)
	got2, ok2 := verifDecryptAsCLI(ct2, stored)
	verifAssert(ok2 && got2 == ct, "round-trip-exact-for-ciphertext-content")
}

// H_c09_b64: the real encoding/base64 code on symbolic bytes: DecodeString(EncodeToString(c)) = c.
func H_c09_b64() {
	// lengths 0..6 exercise every padding case twice; 7..13 additionally reach the decoder's 8- and
	// 4-character fast paths (they need >= 8 / >= 4 free bytes in the destination)
	max := 6
	if verifParam("b64max") == "13" {
		max = 13
	}
	n := verifChoose("n", max+1)
	c := verifBytes("c", max)[:n]
	text := base64.StdEncoding.EncodeToString(c)
	back, err := base64.StdEncoding.DecodeString(text)
	verifReach("emitted")
	verifAssert(err == nil, "decodes")
	verifAssert(len(back) == len(c), "same-length")
	if len(back) == len(c) {
		for i := range c {
			verifAssert(back[i] == c[i], "byte"+verifItoa(i))
		}
	}
}

func verifEncLeaves(p, e, in *verifNode, cls map[string]string, key []byte) {
	if p.kind != e.kind {
		verifAssert(false, "same-shape@"+p.path)
		return
	}
	switch p.kind {
	case vObj, vArr:
		if len(p.kids) != len(e.kids) || len(in.kids) != len(p.kids) {
			verifAssert(false, "same-members@"+p.path)
			return
		}
		for i := range p.kids {
			if p.kind == vObj {
				verifAssert(p.keys[i] == e.keys[i], "same-key@"+p.kids[i].path)
			}
			verifEncLeaves(p.kids[i], e.kids[i], in.kids[i], cls, key)
		}
		return
	case vStr:
		c := cls[p.path]
		replaced := c == "S" || c == "D" || c == "O" || c == "B64"
		if !replaced {
			// constants and field names / references in value position: replaced iff placeholder
			// mode changed them (the replacement text is a constant in this check)
			replaced = p.s != in.s
		}
		if in.kind == vStr && replaced {
			// a string leaf that placeholder mode replaces: the encrypted leaf decrypts to the input
			decoded, err := base64.StdEncoding.DecodeString(e.s)
			verifAssert(err == nil, "ciphertext-is-base64@"+p.path)
			if err != nil {
				return
			}
			pt, derr := Decrypt(decoded, key)
			verifAssert(derr == nil && string(pt) == in.s, "decrypts-to-input@"+p.path)
			return
		}
		verifAssert(e.s == p.s, "same-as-placeholder-mode@"+p.path)
	case vNum:
		verifAssert(e.s == p.s, "number-same-as-placeholder-mode@"+p.path)
	case vBool:
		verifAssert(e.b == p.b, "boolean-same-as-placeholder-mode@"+p.path)
	}
}

// H_c10: deterministic, injective, placeholder-equivalent, fail-closed.
func H_c10() {
	verifConfigSym()
	SetRedactNamespaces(false)
	SetRedactIPs(false)
	SetRedactedString("<R>") // replacement text fixed here (its handling is C05's subject)
	for _, cl := range []string{"G", "DB", "COLL"} {
		for _, g := range verifHoles("L0", cl) {
			verifAssume(g != "<R>") // a name equal to the replacement text is "replaced" by itself
		}
	}
	verifAssumeSimpleNames("L0")
	verifAssumeLiterals("L0")
	var key []byte
	if verifParam("badKey") == "yes" {
		// unusable key material injected at the API level: the encryption step cannot be performed
		key = []byte(verifString("key"))
		verifAssume(len(key) != 64)
	} else {
		key = verifKey()
	}
	plain, okp := verifRunTreeQuiet("L0")
	SetEncryptionKey(key)
	SetShouldEncrypt(true)
	r := verifRunTree("L0")
	if r == nil || !okp {
		return
	}
	if verifParam("badKey") == "yes" {
		// fail-closed: the encryption step cannot be performed; no literal may appear in clear
		for _, cl := range verifSecretClasses {
			for i, s := range verifHoles("L0", cl) {
				verifAssume(s != "")
				verifAssert(!verifLeaks(r.text, s), "clear-text-on-failure:"+cl+verifItoa(i))
			}
		}
		return
	}
	verifEncLeaves(plain.out, r.out, r.in, verifClassMap("L0", "leaf"), key)
	// deterministic: a second run gives the same bytes
	again, ok2 := verifRunTreeQuiet("L0")
	verifAssert(ok2 && again.text == r.text, "deterministic")
	// injective: different plaintexts, different ciphertexts
	ss := verifHoles("L0", "S")
	if len(ss) >= 2 {
		c0, c1 := redactString(ss[0], "x"), redactString(ss[1], "x")
		if ss[0] != ss[1] {
			verifAssert(c0 != c1, "injective")
		} else {
			verifAssert(c0 == c1, "equal-plaintexts-equal-ciphertexts")
		}
	}
}

// verifTempFile: a file with the given content (symbolically: an entry of the file-system
// model; natively: a real temporary file).
func verifTempFile(name, content string) string {
	f, err := os.CreateTemp("", "verif-"+name+"-*")
	if err != nil {
		panic(err)
	}
	f.WriteString(content)
	f.Close()
	return f.Name()
}

var _ = strings.TrimSpace
