//go:build verif

package main

import (
	"regexp"
	"strings"
)

func init() {
	verifHarnesses["H_c14"] = H_c14
	verifHarnesses["H_c15"] = H_c15
}

// verifExpectRedacted: the leaf b is the class placeholder of the input leaf a (as C05).
func verifExpectRedacted(a, b *verifNode, c, repl string, fNum, fBool bool, id string) {
	switch c {
	case "S":
		if verifSpecEmail(a.s) {
			verifAssert(b.kind == vStr && verifSpecEmail(b.s), "redacted-email@"+id)
		} else {
			verifAssert(b.kind == vStr && b.s == repl, "redacted@"+id)
		}
	case "D":
		verifAssert(b.kind == vStr && b.s == RedactedISODate, "redacted-date@"+id)
	case "O":
		verifAssert(b.kind == vStr && b.s == RedactedObjectId, "redacted-oid@"+id)
	case "B64":
		verifAssert(b.kind == vStr && b.s == RedactedUUID, "redacted-binary@"+id)
	case "N":
		if fNum {
			verifAssert(b.kind == vNum && b.s == "0", "redacted-number@"+id)
		} else {
			verifAssert(b.kind == vNum && b.s == a.s, "number-kept@"+id)
		}
	case "B":
		if fBool {
			verifAssert(b.kind == vBool && !b.b, "redacted-boolean@"+id)
		} else {
			verifAssert(b.kind == vBool && b.b == a.b, "boolean-kept@"+id)
		}
	}
}

// verifSelective walks the zones of a line processed in selective mode.
// matched: some key on the path from the document root (the zone key) matches R.
func verifSelective(a, b *verifNode, re *regexp.Regexp, matched, ambiguous bool, cls map[string]string, repl string, fNum, fBool bool) {
	if a.kind != b.kind {
		if a.kind == vObj || a.kind == vArr || b.kind == vObj || b.kind == vArr {
			return
		}
	}
	switch a.kind {
	case vObj:
		if len(a.kids) != len(b.kids) {
			return
		}
		for i, k := range a.keys {
			verifAssert(b.keys[i] == k, "key-kept@"+a.kids[i].path)
			amb := ambiguous
			if strings.Contains(k, ".") {
				// a dotted key names several fields at once: whether one of them "matches" is
				// not settled by the property text unless whole key and no component can differ
				amb = true
			}
			verifSelective(a.kids[i], b.kids[i], re, matched || re.MatchString(k), amb, cls, repl, fNum, fBool)
		}
		return
	case vArr:
		if len(a.kids) != len(b.kids) {
			return
		}
		amb := ambiguous
		if matched && len(a.kpath) > 0 {
			last := a.kpath[len(a.kpath)-1]
			parent := ""
			if len(a.kpath) > 1 {
				parent = a.kpath[len(a.kpath)-2]
			}
			if last == "pipeline" || last == "whenMatched" || parent == "$facet" {
				// a sub-pipeline starts a new document context: whether a matching name above
				// it (a $facet output name, a $lookup target) governs the literals inside is
				// not settled by the property text
				amb = true
			}
		}
		for _, k := range a.kids {
			if k.kind == vStr && strings.HasPrefix(k.s, "$") {
				// expression array with a '$field' operand: the tool may treat the sibling
				// literals as belonging to that field (documented mechanism); no obligation either way
				amb = true
			}
		}
		for i := range a.kids {
			verifSelective(a.kids[i], b.kids[i], re, matched, amb, cls, repl, fNum, fBool)
		}
		return
	}
	c := cls[a.path]
	if c == "" || ambiguous {
		return
	}
	if a.kind == vStr && strings.HasPrefix(a.s, "$") {
		return
	}
	if matched {
		verifExpectRedacted(a, b, c, repl, fNum, fBool, a.path)
	} else {
		verifLeafEqual(a, b, "unmatched-kept@"+a.path)
	}
}

// H_c14: selective mode redacts exactly the values under a matching field name.
func H_c14() {
	verifConfigSym()
	SetRedactNamespaces(false)
	SetRedactIPs(false)
	pattern := verifParam("regexp")
	SetRedactedFieldsRegexp(pattern)
	re := regexp.MustCompile(pattern)
	for _, g := range verifHoles("L0", "G") {
		verifAssume(!strings.Contains(g, "."))
		verifAssume(!strings.HasPrefix(g, "$"))
	}
	r := verifRunTree("L0")
	if r == nil {
		return
	}
	cls := verifClassMap("L0", "leaf")
	attr := verifKid(r.in, "attr")
	oattr := verifKid(r.out, "attr")
	if attr == nil || oattr == nil || !r.gated {
		return
	}
	for _, dk := range verifCmdDocKeys {
		doc, odoc := verifKid(attr, dk), verifKid(oattr, dk)
		if doc == nil || odoc == nil || doc.kind != vObj || odoc.kind != vObj {
			continue
		}
		for _, zk := range verifValueZoneKeys {
			z, oz := verifKid(doc, zk), verifKid(odoc, zk)
			if z == nil || oz == nil {
				continue
			}
			verifSelective(z, oz, re, false, false, cls, verifString("replacement"), verifBool("redactNumbers"), verifBool("redactBooleans"))
		}
	}
}

// ---- C15: field-name redaction ----

var verifNameZoneKeys = []string{"query", "filter", "sort", "update", "updates", "q", "u", "deletes", "documents", "arrayFilters"}

// verifNamePosition: key positions the property names: keys of the query predicate, update
// specification, inserted documents, sort document, and of $match / $sort stages.
func verifNamePosition(gated bool, kp []string) bool {
	if !gated || len(kp) < 3 || kp[0] != "attr" || !verifIn(verifCmdDocKeys, kp[1]) {
		return false
	}
	if verifIn(verifNameZoneKeys, kp[2]) {
		return true
	}
	if kp[2] == "pipeline" {
		for _, k := range kp[3:] {
			if k == "$match" || k == "$sort" {
				return true
			}
		}
	}
	return false
}

type verifNameSet struct{ names []string }

func verifFieldNames(a, b *verifNode, gated bool, keyCls, leafCls map[string]string, repl string, claimed *verifNameSet) {
	if a.kind != b.kind {
		if a.kind == vObj || a.kind == vArr || b.kind == vObj || b.kind == vArr {
			verifAssert(false, "kind@"+a.path)
		}
		return
	}
	switch a.kind {
	case vObj:
		if len(a.kids) != len(b.kids) {
			verifAssert(false, "siblings@"+a.path)
			return
		}
		for i, k := range a.keys {
			kc := keyCls[a.kids[i].path]
			if (kc == "G" || kc == "~G+G") && verifNamePosition(gated, a.kids[i].kpath) {
				verifAssert(b.keys[i] == verifPseudoName(k, repl), "key-pseudonym@"+a.kids[i].path)
				if kc == "G" {
					claimed.names = append(claimed.names, k)
				}
			}
			verifFieldNames(a.kids[i], b.kids[i], gated, keyCls, leafCls, repl, claimed)
		}
	case vArr:
		if len(a.kids) != len(b.kids) {
			verifAssert(false, "length@"+a.path)
			return
		}
		for i := range a.kids {
			verifFieldNames(a.kids[i], b.kids[i], gated, keyCls, leafCls, repl, claimed)
		}
	case vStr:
		// '$field' reference in an expression of a query-bearing part
		if leafCls[a.path] == "~G" && strings.HasPrefix(a.s, "$") && !strings.HasPrefix(a.s, "$$") && verifInValueZone(gated, a.kpath) {
			claimed.names = append(claimed.names, strings.TrimPrefix(a.s, "$"))
		}
	}
}

// verifSameValues: leaves agree between the run with and without the flag, except
// '$field' references (renamed by design).
func verifSameValues(on, off *verifNode, cls map[string]string) {
	if on.kind != off.kind {
		if on.kind == vObj || on.kind == vArr || off.kind == vObj || off.kind == vArr {
			verifAssert(false, "values-kind@"+on.path)
			return
		}
	}
	switch on.kind {
	case vObj, vArr:
		if len(on.kids) != len(off.kids) {
			verifAssert(false, "values-members@"+on.path)
			return
		}
		for i := range on.kids {
			verifSameValues(on.kids[i], off.kids[i], cls)
		}
		return
	}
	c := cls[on.path]
	if strings.HasPrefix(c, "~") || c == "G" {
		return // '$field' reference or a field name in value position (renamed by design)
	}
	verifLeafEqual(on, off, "value-as-without-flag@"+on.path)
}

func H_c15() {
	verifConfigSym()
	if verifParam("nsFlag") != "sym" {
		SetRedactNamespaces(false)
	}
	SetRedactNumbers(false)
	SetRedactBooleans(false)
	SetRedactIPs(false)
	for _, cl := range []string{"G", "DB", "COLL"} {
		for _, g := range verifHoles("L0", cl) {
			verifAssume(!strings.Contains(g, "."))
			verifAssume(!strings.HasPrefix(g, "$"))
			verifAssume(g != "")
		}
	}
	psFormat := verifParam("ps")
	if psFormat != "" {
		// plan-summary jobs: index-key names as the server prints them
		for _, g := range verifHoles("L0", "G") {
			verifAssumeWord(g)
		}
	}
	repl := verifString("replacement")
	prefix := verifString("eagerPrefix")
	verifAssumeLiterals("L0")
	// flag off
	off, ok0 := verifRunTreeQuiet("L0")
	SetEagerRedactionPaths([]string{prefix})
	r := verifRunTree("L0")
	if r == nil || !ok0 {
		return
	}
	ns := verifStrOf(verifKid(verifKid(r.in, "attr"), "ns"))
	if !r.gated || !strings.HasPrefix(ns, prefix) {
		// other namespaces: exactly as without the flag
		verifAssert(r.text == off.text, "foreign-namespace-untouched")
		return
	}
	verifReach("active")
	claimed := &verifNameSet{}
	verifFieldNames(r.in, r.out, r.gated, verifClassMap("L0", "key"), verifClassMap("L0", "leaf"), repl, claimed)
	for i, g := range claimed.names {
		verifAssert(!verifLeaks(r.text, g), "field-name-in-clear:"+verifItoa(i))
	}
	verifSameValues(r.out, off.out, verifClassMap("L0", "leaf"))
	if psFormat != "" {
		// the plan summary is the input text with every index-key name replaced by the pseudonym the
		// same name gets in the filter, and nothing else changed
		want := verifExpectPlanSummary(psFormat, verifHoles("L0", "G"), repl)
		got := verifStrOf(verifKid(verifKid(r.out, "attr"), "planSummary"))
		verifAssert(got == want, "plan-summary-renamed")
	}
}

// verifExpectPlanSummary: format with %0 .. %9 standing for the i-th field name of the line and
// %{name} for a fixed index-key name;
// each is replaced by the documented pseudonym of that name.
func verifExpectPlanSummary(format string, names []string, repl string) string {
	out := ""
	for i := 0; i < len(format); i++ {
		if format[i] == '%' && i+1 < len(format) && format[i+1] >= '0' && format[i+1] <= '9' {
			out += verifPseudoName(names[int(format[i+1]-'0')], repl)
			i++
			continue
		}
		if format[i] == '%' && i+1 < len(format) && format[i+1] == '{' {
			// %{name}: an index key with a fixed name (e.g. _id); renamed like any other field name
			j := strings.Index(format[i:], "}")
			out += verifPseudoName(format[i+2:i+j], repl)
			i += j
			continue
		}
		out += format[i : i+1]
	}
	return out
}

// verifRunTreeQuiet: as verifRunTree without assertions / emission (reference run).
func verifRunTreeQuiet(name string) (*verifRun, bool) {
	out, err := RedactMongoLog(verifLine(name))
	if err != nil {
		return nil, false
	}
	b, merr := MarshalOrdered(out)
	if merr != nil {
		return nil, false
	}
	return &verifRun{out: verifTreeOf(out, "", nil), text: string(b)}, true
}
