//go:build verif

package main

import "strings"

func init() {
	verifHarnesses["H_c01"] = H_c01
}

// verifConfigSym: option globals := symbolic values, written through the real setters.
func verifConfigSym() {
	SetRedactedString(verifString("replacement"))
	SetRedactNumbers(verifBool("redactNumbers"))
	SetRedactBooleans(verifBool("redactBooleans"))
	SetRedactIPs(verifBool("redactIPs"))
	SetRedactNamespaces(verifBool("redactNamespaces"))
	if verifParam("fix") == "ns+ip" {
		// odd-shape jobs: these two switches are covered by the regular corpus
		verifAssume(!verifBool("redactIPs"))
		verifAssume(!verifBool("redactNamespaces"))
	}
	if verifParam("eager") == "on" {
		SetEagerRedactionPaths([]string{verifString("eagerPrefix")})
	}
}

var verifSecretClasses = []string{"S", "D", "O", "B64"}

// verifAssumeSimpleNames: user field names and namespace parts of the templates are
// single path components (dotted paths are spelled out in the templates themselves).
func verifAssumeSimpleNames(line string) {
	for _, cl := range []string{"G", "DB", "COLL"} {
		for _, g := range verifHoles(line, cl) {
			verifAssume(!strings.Contains(g, "."))
			verifAssume(!strings.HasPrefix(g, "$"))
		}
	}
}

// verifAssumeSecrets: the claim is about literals that are not field-path references.
func verifAssumeSecrets(line string) {
	for _, cl := range verifSecretClasses {
		for _, s := range verifHoles(line, cl) {
			verifAssume(s != "")
			verifAssume(s[0] != '$')
		}
	}
}

// H_c01: no sensitive literal of the line survives (full-redaction mode).
func H_c01() {
	verifConfigSym()
	verifAssumeSimpleNames("L0")
	verifAssumeSecrets("L0")
	line := verifLine("L0")
	out, err := RedactMongoLog(line)
	if err != nil {
		verifAssert(false, "parse-error")
		return
	}
	b, merr := MarshalOrdered(out)
	if merr != nil {
		verifAssert(false, "marshal-error")
		return
	}
	text := string(b)
	verifEmit(text)
	verifReach("emitted")
	for _, cl := range verifSecretClasses {
		for i, s := range verifHoles("L0", cl) {
			verifAssert(!verifLeaks(text, s), "leak:"+cl+verifItoa(i))
		}
	}
	if redactNumbers {
		for i, n := range verifHoles("L0", "N") {
			verifAssume(len(n) >= 6)
			verifAssert(!verifLeaks(text, n), "leak:N"+verifItoa(i))
		}
	}
	if redactIPs {
		for i, ip := range verifHoles("L0", "IP") {
			verifAssume(len(ip) >= 7)
			verifAssert(!verifLeaks(text, ip), "leak:IP"+verifItoa(i))
		}
	}
}
