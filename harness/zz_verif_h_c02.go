//go:build verif

package main

import "strings"

func init() {
	verifHarnesses["H_c02"] = H_c02
}

// verifRedactLine: the observable function line -> emitted text ("" + flag when the line is skipped).
func verifRedactLine(line string) (string, bool) {
	out, err := RedactMongoLog(line)
	if err != nil {
		return "", false
	}
	b, merr := MarshalOrdered(out)
	if merr != nil {
		return "", false
	}
	return string(b), true
}

// H_c02: non-interference. L1 is L0 with every sensitive literal re-assigned within its
// lexical class; the two emitted lines must be byte-identical (placeholder mode).
func H_c02() {
	verifConfigSym()
	verifAssumeSimpleNames("L0")
	for _, cl := range verifSecretClasses {
		a, b := verifHoles("L0", cl), verifHoles("L1", cl)
		for i := range a {
			// field-path references are a different lexical class (outside the claim)
			verifAssume(!strings.HasPrefix(a[i], "$"))
			verifAssume(!strings.HasPrefix(b[i], "$"))
			if verifParam("allowEmpty") != "yes" {
				// quick tier bound: literals are non-empty (the thorough tier lets either be empty)
				verifAssume(a[i] != "")
				verifAssume(b[i] != "")
			}
			if cl == "S" {
				verifAssume(IsEmail(a[i]) == IsEmail(b[i]))
			}
		}
	}
	n0, n1 := verifHoles("L0", "N"), verifHoles("L1", "N")
	if !redactNumbers {
		for i := range n0 {
			verifAssume(n0[i] == n1[i])
		}
	}
	b0, b1 := verifBoolHoles("L0"), verifBoolHoles("L1")
	if !redactBooleans {
		for i := range b0 {
			verifAssume(b0[i] == b1[i])
		}
	}
	ip0, ip1 := verifHoles("L0", "IP"), verifHoles("L1", "IP")
	if !redactIPs {
		for i := range ip0 {
			verifAssume(ip0[i] == ip1[i])
		}
	}
	t0, ok0 := verifRedactLine(verifLine("L0"))
	t1, ok1 := verifRedactLine(verifLine("L1"))
	verifAssert(ok0 && ok1, "emitted-both")
	if !ok0 || !ok1 {
		return
	}
	verifEmit(t0)
	verifEmit(t1)
	verifReach("emitted")
	verifAssert(t0 == t1, "equal-output")
}
