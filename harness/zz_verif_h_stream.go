//go:build verif

package main

import (
	"bytes"
	"compress/gzip"
	"errors"
	"io"
	"strings"

	"github.com/schollz/progressbar/v3"
)

func init() {
	verifHarnesses["H_c06"] = H_c06
	verifHarnesses["H_c06_local"] = H_c06_local
	verifHarnesses["H_c07"] = H_c07
	verifHarnesses["H_c08"] = H_c08
}

// verifLineReader: the input of a run as a list of lines. Under the symbolic executor the
// bufio.Scanner / gzip stubs read the fields directly (contract of bufio.ScanLines: lines
// without terminator, '\r' stripped, final unterminated line yielded); natively Read
// serves the corresponding bytes.
type verifLineReader struct {
	lines       []string
	tooLongAt   int   // index of a line longer than the scanner's limit (-1: none)
	err         error // read error delivered after the last line (nil: clean EOF)
	gzHeaderErr error // error of gzip.NewReader (only for .gz input)
	frag        string // unterminated data read before err strikes (a fault in the middle of a line)
	gzFirst     int    // .gz input written as two gzip members, the first holding this many lines (0: one member)
	// native representation
	crlf, noFinalNL, gz bool
	buf                 *bytes.Reader
}

func (r *verifLineReader) Read(p []byte) (int, error) {
	if r.buf == nil {
		var sb bytes.Buffer
		term := "\n"
		if r.crlf {
			term = "\r\n"
		}
		for i, l := range r.lines {
			if i == r.tooLongAt {
				l = strings.Repeat("x", 70000)
			}
			sb.WriteString(l)
			if i < len(r.lines)-1 || !r.noFinalNL {
				sb.WriteString(term)
			}
		}
		if r.tooLongAt >= len(r.lines) && r.tooLongAt >= 0 {
			sb.WriteString(strings.Repeat("x", 70000) + term)
		}
		if r.err != nil {
			sb.WriteString(r.frag)
		}
		content := sb.Bytes()
		if r.gz {
			var zb bytes.Buffer
			if r.gzFirst > 0 && r.gzFirst < len(r.lines) && r.tooLongAt < 0 && r.err == nil {
				// multi-member gzip file (gzip -c part >> log.gz): cut after the first gzFirst lines
				cut := 0
				for i := 0; i < r.gzFirst; i++ {
					cut += len(r.lines[i]) + len(term)
				}
				zw := gzip.NewWriter(&zb)
				zw.Write(content[:cut])
				zw.Close()
				zw = gzip.NewWriter(&zb)
				zw.Write(content[cut:])
				zw.Close()
			} else {
				zw := gzip.NewWriter(&zb)
				zw.Write(content)
				zw.Close()
			}
			content = zb.Bytes()
			if r.gzHeaderErr != nil {
				content = []byte("this is not a gzip stream")
			} else if r.err == gzip.ErrHeader {
				content = append(content, []byte("this is not the header of a second gzip member")...) // corrupt later member
			} else if r.err != nil && len(content) > 8 {
				content = content[:len(content)-8] // truncated stream: the gzip reader reports the failure
			}
		}
		r.buf = bytes.NewReader(content)
	}
	n, err := r.buf.Read(p)
	if err == io.EOF && r.err != nil && !r.gz {
		return n, r.err
	}
	return n, err
}

func (r *verifLineReader) Close() error { return nil }

// verifFileReader: a FileReader whose files are line readers.
type verifFileReader struct {
	rd      *verifLineReader
	ext     string
	openErr error
}

func (f *verifFileReader) Open(path string) (io.ReadCloser, error) {
	if f.openErr != nil {
		return nil, f.openErr
	}
	return f.rd, nil
}
func (f *verifFileReader) GetExtension(path string) string { return f.ext }

// verifWriter: an output sink that records whole Write calls and can fail at the k-th one.
type verifWriter struct {
	failAt int // 1-based index of the failing Write (0: never)
	n      int
	writes []string
}

func (w *verifWriter) Write(p []byte) (int, error) {
	w.n++
	if w.n == w.failAt {
		return 0, errors.New("injected write failure (disk full)")
	}
	w.writes = append(w.writes, string(p))
	return len(p), nil
}

var verifGarbage = []string{
	"this is not json",
	"2024-05-01T10:00:00.123+0000 I COMMAND  [conn42] command test.coll command: find { find: \"coll\", filter: { ssn: \"123\" } } planSummary: COLLSCAN 12ms",
	"{\"t\":{\"$date\":\"2024-05-01T10:00:00.123+00:00\"},\"s\":\"I\",\"c\":\"COMMAND\",\"msg\":\"Slow query\",\"attr\":{\"command\":{\"find\":\"c\",\"filter\":{\"ssn\":\"12",
	"{\"a\":1,}",
	"[1,2,{\"a\":\"b\"}]",
	"\"just a string\"",
	"42",
	"null",
	"true",
	"}{",
	"{\"a\":1} trailing",
}

// verifBarOf: nil, or a progress bar in an arbitrary state.
func verifBarOf(which int) *progressbar.ProgressBar {
	if which == 0 {
		return nil
	}
	return verifBar("bar")
}

func verifTemplateLine(i int) string {
	switch i {
	case 0:
		return verifLine("L0")
	case 1:
		return verifLine("L1")
	default:
		return verifLine("L2")
	}
}

// verifPickLines chooses k lines: template object lines, blank, whitespace, or garbage.
func verifPickLines(k int, garbageKinds int) []string {
	var lines []string
	for i := 0; i < k; i++ {
		switch verifChoose("kind"+verifItoa(i), 4) {
		case 0:
			lines = append(lines, verifTemplateLine(i))
		case 1:
			lines = append(lines, "")
		case 2:
			lines = append(lines, "  \t ")
		default:
			lines = append(lines, verifGarbage[verifChoose("garbage"+verifItoa(i), garbageKinds)])
		}
	}
	return lines
}

// verifExpected: what each line yields when processed on its own.
func verifExpected(lines []string) []string {
	var out []string
	for _, l := range lines {
		if t, ok := verifRedactLine(l); ok {
			out = append(out, t+"\n")
		}
	}
	return out
}

func verifSameWrites(got, want []string, id string) {
	verifAssert(len(got) == len(want), id+"-count")
	if len(got) != len(want) {
		return
	}
	for i := range got {
		verifAssert(got[i] == want[i], id+"-line"+verifItoa(i))
	}
}

func verifGlobalsUnchanged() {
	verifAssert(redactedString == verifString("replacement") && redactNumbers == verifBool("redactNumbers") &&
		redactBooleans == verifBool("redactBooleans") && redactIPs == verifBool("redactIPs") &&
		redactNamespaces == verifBool("redactNamespaces"), "options-unchanged")
}

// H_c06: a log is processed as an order-preserving, line-local map, on every channel.
func H_c06() {
	verifConfigSym()
	for _, n := range []string{"L0", "L1", "L2"} {
		if verifParam("has."+n) == "yes" {
			verifAssumeSimpleNames(n)
			verifAssumeLiterals(n)
		}
	}
	k := 2
	if verifParam("k") == "3" {
		k = 3
	}
	lines := verifPickLines(k, 4)
	want := verifExpected(lines)
	// arbitrary pre-state of the pseudonym side table: must not feed back into the output
	RedactedFieldMapping[verifString("pre.key")] = verifString("pre.value")
	bar := verifBarOf(verifChoose("bar", 2))
	w := &verifWriter{}
	err := processMongoLogStream(&verifLineReader{lines: lines, tooLongAt: -1, crlf: verifParam("crlf") == "yes", noFinalNL: verifParam("noFinalNL") == "yes"}, w, bar)
	verifAssert(err == nil, "stream-ok")
	verifSameWrites(w.writes, want, "stream")
	verifGlobalsUnchanged()
	for _, e := range w.writes {
		verifEmit(e)
	}
	verifReach("emitted")
	// the same content through the file channels (plain, .gz) and the reader channel
	w2 := &verifWriter{}
	err2 := ProcessMongoLogFile(&verifFileReader{rd: &verifLineReader{lines: lines, tooLongAt: -1}, ext: ""}, "in.log", w2, nil)
	verifAssert(err2 == nil, "file-ok")
	verifSameWrites(w2.writes, want, "file")
	w3 := &verifWriter{}
	// (a .gz log may consist of several gzip members - rotated parts appended with gzip -c >> - and
	// its content is the concatenation of all of them)
	err3 := ProcessMongoLogFile(&verifFileReader{rd: &verifLineReader{lines: lines, tooLongAt: -1, gz: true, gzFirst: 1}, ext: ".gz"}, "in.log.gz", w3, bar)
	verifAssert(err3 == nil, "gzip-ok")
	verifSameWrites(w3.writes, want, "gzip")
	w4 := &verifWriter{}
	err4 := ProcessMongoLogFileFromReader(&verifLineReader{lines: lines, tooLongAt: -1, crlf: true, noFinalNL: true}, w4, nil)
	verifAssert(err4 == nil, "reader-ok")
	verifSameWrites(w4.writes, want, "reader")
}

func verifApplyMode(mode int) {
	verifConfigSym()
	switch mode {
	case 1:
		SetEagerRedactionPaths([]string{verifString("eagerPrefix")})
	case 2:
		SetRedactedFieldsRegexp(`^(ssn|email|phoneNumber)$`)
	}
}

// H_c06_local: line-locality against hidden state. Each line is redacted on its own in a fresh
// process state; then both lines go through one run, in both orders: every line must come out
// as it does alone (so nothing remembered from an earlier line - a cache, a "current namespace",
// a memo table - can influence a later one), in placeholder, field-name and selective mode.
func H_c06_local() {
	mode := 2
	if verifParam("mode") != "selective" {
		mode = verifChoose("mode", 3)
	}
	for _, n := range []string{"L0", "L1"} {
		verifAssumeSimpleNames(n)
		verifAssumeLiterals(n)
		for _, g := range verifHoles(n, "G") {
			verifAssume(g != "")
		}
	}
	l0, l1 := verifLine("L0"), verifLine("L1")
	verifFreshProcess()
	verifApplyMode(mode)
	a0, ok0 := verifRedactLine(l0)
	verifFreshProcess()
	verifApplyMode(mode)
	a1, ok1 := verifRedactLine(l1)
	verifAssume(ok0 && ok1)
	verifFreshProcess()
	verifApplyMode(mode)
	w := &verifWriter{}
	err := processMongoLogStream(&verifLineReader{lines: []string{l0, l1}, tooLongAt: -1}, w, nil)
	verifAssert(err == nil, "stream-ok")
	verifSameWrites(w.writes, []string{a0 + "\n", a1 + "\n"}, "as-alone")
	for _, e := range w.writes {
		verifEmit(e)
	}
	verifReach("emitted")
	verifFreshProcess()
	verifApplyMode(mode)
	w2 := &verifWriter{}
	err2 := processMongoLogStream(&verifLineReader{lines: []string{l1, l0}, tooLongAt: -1}, w2, nil)
	verifAssert(err2 == nil, "stream-ok-reversed")
	verifSameWrites(w2.writes, []string{a1 + "\n", a0 + "\n"}, "as-alone-reversed")
}

// verifModeConfig: placeholder, field-name or selective mode (chosen by the solver).
func verifModeConfig() {
	verifConfigSym()
	switch verifChoose("mode", 3) {
	case 1:
		SetEagerRedactionPaths([]string{verifString("eagerPrefix")})
	case 2:
		SetRedactedFieldsRegexp(`^(ssn|email|phoneNumber)$`)
	}
}

// H_c07: no line content can crash or abort a run.
// variant "shape":   line 0 is the (odd-shaped) line under test in every mode; then a blank line and an ordinary line.
// variant "garbage": an ordinary line, then any malformed / blank line, then an ordinary line; bar and over-long line positions vary.
func H_c07() {
	shape := verifParam("variant") == "shape"
	if shape {
		verifModeConfig()
	} else {
		verifConfigSym()
	}
	verifAssumeSimpleNames("L0")
	verifAssumeLiterals("L0")
	verifAssumeSimpleNames("L2")
	verifAssumeLiterals("L2")
	l0 := verifLine("L0")
	l1 := ""
	var bar *progressbar.ProgressBar
	if !shape {
		switch verifChoose("kind1", 3) {
		case 0:
			l1 = ""
		case 1:
			l1 = "  \t "
		default:
			l1 = verifGarbage[verifChoose("garbage1", len(verifGarbage))]
		}
		bar = verifBarOf(verifChoose("bar", 2))
	}
	l2 := verifLine("L2")
	lines := []string{l0, l1, l2}
	w := &verifWriter{}
	err := processMongoLogStream(&verifLineReader{lines: lines, tooLongAt: -1}, w, bar)
	verifReach("emitted")
	verifAssert(err == nil, "run-not-aborted")
	verifAssert(len(w.writes) <= 3, "at-most-one-line-per-line")
	// the ordinary last line is processed as usual
	t2, ok2 := verifRedactLine(l2)
	verifAssert(ok2 && len(w.writes) >= 1 && w.writes[len(w.writes)-1] == t2+"\n", "later-lines-processed")
	for _, e := range w.writes {
		verifEmit(e)
	}
	if shape {
		return
	}
	// an over-long line is the one content-dependent stop: explicit error, nothing passed through
	at := verifChoose("tooLongAt", 3)
	w2 := &verifWriter{}
	err2 := processMongoLogStream(&verifLineReader{lines: lines, tooLongAt: at}, w2, nil)
	verifAssert(err2 != nil, "too-long-line-reported")
	verifAssert(len(w2.writes) <= at, "too-long-line-not-passed-through")
}

// H_c08: I/O failures are reported, never turned into silent truncation.
func H_c08() {
	verifConfigSym()
	verifAssumeSimpleNames("L0")
	verifAssumeLiterals("L0")
	verifAssumeSimpleNames("L1")
	verifAssumeLiterals("L1")
	lines := []string{verifLine("L0"), verifLine("L1"), verifLine("L0")}
	want := verifExpected(lines)
	verifAssume(len(want) == 3)
	// (a) the k-th write fails
	failAt := 1 + verifChoose("failAt", 3)
	w := &verifWriter{failAt: failAt}
	err := processMongoLogStream(&verifLineReader{lines: lines, tooLongAt: -1}, w, verifBarOf(verifChoose("bar", 2)))
	verifReach("emitted")
	verifAssert(err != nil, "write-failure-reported")
	verifAssert(w.n == failAt, "no-write-after-failure")
	verifAssert(len(w.writes) == failAt-1, "prefix-count")
	for i := range w.writes {
		if i < len(want) {
			verifAssert(w.writes[i] == want[i], "prefix-line"+verifItoa(i))
		}
		verifEmit(w.writes[i])
	}
	// (b) the input fails part-way (read error / truncated or corrupt compressed stream)
	rerr := errors.New("injected read failure")
	w2 := &verifWriter{}
	frag := ""
	fragWhole := false
	switch verifChoose("fragment", 4) {
	case 1:
		frag = `{"t":{"$date":"2024-05-01T10:00:00.1` // the fault strikes in the middle of a line
	case 2:
		// ... or just before its newline: the line is complete and belongs to the fault-free output
		frag = `{"t":{"$date":"2024-05-01T10:00:00.123+00:00"},"s":"I","c":"NETWORK","id":1,"ctx":"c","msg":"m","attr":{}}`
		fragWhole = true
	case 3:
		frag = `{"t":{"$date":"2024-05-01T10:00:00.123+00:00"},"s":"I","c":"NETWORK","id":1,"ctx":"c","msg":"m","attr":{"x":1` // cut after a complete value
	}
	nread := 1 + verifChoose("readFailAfter", 3)
	err2 := processMongoLogStream(&verifLineReader{lines: lines[:nread], tooLongAt: -1, err: rerr, frag: frag}, w2, nil)
	verifAssert(err2 != nil, "read-failure-reported")
	want2 := want[:nread]
	if fragWhole {
		want2 = verifExpected(append(append([]string{}, lines[:nread]...), frag))
	}
	verifAssert(len(w2.writes) <= len(want2), "read-prefix-no-partial-line")
	for i := range w2.writes {
		if i < len(want2) {
			verifAssert(w2.writes[i] == want2[i], "read-prefix-line"+verifItoa(i))
		}
	}
	// (c) through the file channel: open error, bad gzip header, read error inside gzip
	w3 := &verifWriter{}
	err3 := ProcessMongoLogFile(&verifFileReader{rd: &verifLineReader{lines: lines, tooLongAt: -1, gz: true, gzHeaderErr: errors.New("gzip: invalid header")}, ext: ".gz"}, "in.log.gz", w3, nil)
	verifAssert(err3 != nil && len(w3.writes) == 0, "bad-gzip-reported")
	w4 := &verifWriter{}
	err4 := ProcessMongoLogFile(&verifFileReader{openErr: errors.New("open failed")}, "missing.log", w4, nil)
	verifAssert(err4 != nil && len(w4.writes) == 0, "open-failure-reported")
	w5 := &verifWriter{}
	err5 := ProcessMongoLogFile(&verifFileReader{rd: &verifLineReader{lines: lines[:2], tooLongAt: -1, err: rerr}, ext: ".gz"}, "in.log.gz", w5, nil)
	verifAssert(err5 != nil, "gzip-read-failure-reported")
	// a corrupt later member of a multi-member gzip file surfaces as gzip.ErrHeader in mid-stream
	w6 := &verifWriter{}
	err6 := ProcessMongoLogFile(&verifFileReader{rd: &verifLineReader{lines: lines[:2], tooLongAt: -1, gz: true, err: verifGzipErrHeader()}, ext: ".gz"}, "in.log.gz", w6, nil)
	verifAssert(err6 != nil, "corrupt-gzip-member-reported")
}

// verifBar: a progress bar (natively a silent real one; symbolically an opaque bar in an arbitrary state).
func verifBar(name string) *progressbar.ProgressBar {
	return progressbar.NewOptions64(int64(verifInt(name+".max")), progressbar.OptionSetWriter(io.Discard))
}

// verifGzipErrHeader: the error value a gzip reader reports for a corrupt member header.
func verifGzipErrHeader() error { return gzip.ErrHeader }
