//go:build verif

package main

// Harness API. Under the symbolic executor every verif* function is intercepted and
// the body below is never run; in a native replay build the bodies read the concrete
// model the solver produced (file named by $VERIF_MODEL) and evaluate the same
// assertions on the real code.

import (
	"encoding/base64"
	"encoding/json"
	"net/url"
	"fmt"
	"os"
	"strings"
)

type verifModel struct {
	Strings map[string]string `json:"strings"`
	Bools   map[string]bool   `json:"bools"`
	Ints    map[string]int64  `json:"ints"`
	Lines   map[string]string `json:"lines"`
	Holes   map[string]map[string][]string `json:"holes"`     // line -> class -> values
	BoolHoles map[string][]bool `json:"bool_holes"`
	Params  map[string]string `json:"params"`
	HolePos map[string]map[string][][2]string `json:"hole_pos"`
}

var (
	verifM        *verifModel
	verifFailed   []string
	verifReached  []string
	verifAssumeKO bool
)

type verifAssumeFailed struct{}

func verifLoad() *verifModel {
	if verifM != nil {
		return verifM
	}
	verifM = &verifModel{}
	p := os.Getenv("VERIF_MODEL")
	if p == "" {
		return verifM
	}
	b, err := os.ReadFile(p)
	if err != nil {
		panic(err)
	}
	if err := json.Unmarshal(b, verifM); err != nil {
		panic(err)
	}
	return verifM
}

func verifReset() {
	verifM = nil
	verifFailed = nil
	verifReached = nil
	verifAssumeKO = false
}

func verifString(name string) string { return verifLoad().Strings[name] }
func verifName(name string) string   { return verifLoad().Strings[name] }
func verifBool(name string) bool     { return verifLoad().Bools[name] }
func verifInt(name string) int       { return int(verifLoad().Ints[name]) }
func verifByte(name string) byte     { return byte(verifLoad().Ints[name]) }
func verifBytes(name string, n int) []byte {
	out := make([]byte, n)
	for i := range out {
		out[i] = byte(verifLoad().Ints[fmt.Sprintf("%s[%d]", name, i)])
	}
	return out
}
func verifChoose(name string, n int) int { return int(verifLoad().Ints[name]) }
func verifParam(name string) string      { return verifLoad().Params[name] }
func verifLine(name string) string       { return verifLoad().Lines[name] }
func verifHoles(line, class string) []string {
	return verifLoad().Holes[line][class]
}
func verifBoolHoles(line string) []bool { return verifLoad().BoolHoles[line] }

// verifHolePaths / verifHoleClasses: index paths ("7.4.1") and classes of the template's
// hole-bearing leaves (kind "leaf") or keys (kind "key"), in document order.
func verifHolePaths(line, kind string) []string {
	var out []string
	for _, pc := range verifLoad().HolePos[line][kind] {
		out = append(out, pc[0])
	}
	return out
}
func verifHoleClasses(line, kind string) []string {
	var out []string
	for _, pc := range verifLoad().HolePos[line][kind] {
		out = append(out, pc[1])
	}
	return out
}

func verifAssume(c bool) {
	if !c {
		verifAssumeKO = true
		panic(verifAssumeFailed{})
	}
}

// verifAssumeWord: s is a non-empty string over [A-Za-z0-9_] (any length). Under the engine the
// character class is also recorded for the atom (used by the rope-level string models).
func verifAssumeWord(s string) {
	ok := s != ""
	for i := 0; i < len(s); i++ {
		c := s[i]
		if !((c >= 'a' && c <= 'z') || (c >= 'A' && c <= 'Z') || (c >= '0' && c <= '9') || c == '_') {
			ok = false
		}
	}
	verifAssume(ok)
}

func verifAssert(c bool, id string) {
	if !c {
		verifFailed = append(verifFailed, id)
	}
}

func verifReach(id string) { verifReached = append(verifReached, id) }

// verifLeaks (native oracle): the secret occurs in hay verbatim, URL-encoded, or inside
// a base64 token of hay. (Symbolically: some segment of hay depends on the secret outside
// a cryptographic hash / cipher and can contain it.)
func verifLeaks(hay, secret string) bool {
	if secret == "" {
		return false
	}
	if strings.Contains(hay, secret) || strings.Contains(hay, url.QueryEscape(secret)) || strings.Contains(hay, url.PathEscape(secret)) {
		return true
	}
	isB64 := func(c byte) bool {
		return (c >= 'A' && c <= 'Z') || (c >= 'a' && c <= 'z') || (c >= '0' && c <= '9') || c == '+' || c == '/' || c == '=' || c == '-' || c == '_'
	}
	for i := 0; i < len(hay); {
		if !isB64(hay[i]) {
			i++
			continue
		}
		j := i
		for j < len(hay) && isB64(hay[j]) {
			j++
		}
		if j-i >= 8 {
			tok := hay[i:j]
			for _, enc := range []*base64.Encoding{base64.StdEncoding, base64.URLEncoding, base64.RawStdEncoding, base64.RawURLEncoding} {
				if d, err := enc.DecodeString(tok); err == nil && strings.Contains(string(d), secret) {
					return true
				}
			}
		}
		i = j
	}
	return false
}

func verifNote(s string) {}

var verifEmitted []string

// verifEmit records an observable output of the harness (compared between the symbolic
// prediction and the native run).
func verifEmit(s string) { verifEmitted = append(verifEmitted, s) }

type verifCase struct {
	Harness string      `json:"harness"`
	Model   *verifModel `json:"model"`
}

type verifOutcome struct {
	Failed   []string `json:"failed"`
	Reached  []string `json:"reached"`
	AssumeKO bool     `json:"assume_ko"`
	Emitted  []string `json:"emitted"`
	Panic    string   `json:"panic"`
}

func verifRunCase(c verifCase) (res verifOutcome) {
	verifReset()
	verifEmitted = nil
	verifM = c.Model
	if verifM == nil {
		verifM = &verifModel{}
	}
	h := verifHarnesses[c.Harness]
	defer func() {
		if r := recover(); r != nil {
			if _, ok := r.(verifAssumeFailed); !ok {
				res.Panic = fmt.Sprint(r)
			}
		}
		res.Failed = verifFailed
		res.Reached = verifReached
		res.AssumeKO = verifAssumeKO
		res.Emitted = verifEmitted
	}()
	if h == nil {
		panic("no such harness: " + c.Harness)
	}
	verifResetGlobals()
	h()
	return
}

// verifResetGlobals restores the option globals to their defaults between cases.
func verifResetGlobals() {
	SetRedactedString(RedactedString)
	SetRedactNumbers(false)
	SetRedactBooleans(false)
	SetRedactIPs(false)
	SetEagerRedactionPaths(nil)
	SetEncryptionKey(nil)
	SetShouldEncrypt(false)
	SetRedactNamespaces(false)
	SetRedactedFieldsRegexp("")
	RedactedFieldMapping = map[string]string{}
	atlasLogStartDate = 0
	atlasLogEndDate = 0
}

func verifItoa(i int) string { return fmt.Sprint(i) }

// verifFreshProcess: the state a new run of the tool starts from. Under the engine every
// package-level variable of the program is re-initialised (so state hidden in variables the
// harness does not know about is gone as well); natively the documented option setters are
// re-applied with their defaults.
func verifFreshProcess() { verifResetGlobals() }
