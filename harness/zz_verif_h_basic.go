//go:build verif

package main

var verifHarnesses = map[string]func(){}

func init() {
	verifHarnesses["H_fixture"] = H_fixture
}

// verifConfigFromParams sets the option globals from concrete job parameters.
func verifConfigFromParams() {
	if r := verifParam("replacement"); r != "" {
		SetRedactedString(r)
	}
	SetRedactNumbers(verifParam("redactNumbers") == "true")
	SetRedactBooleans(verifParam("redactBooleans") == "true")
	SetRedactIPs(verifParam("redactIPs") == "true")
	SetRedactNamespaces(verifParam("redactNamespaces") == "true")
	if p := verifParam("eagerPath"); p != "" {
		SetEagerRedactionPaths([]string{p})
	}
	SetRedactedFieldsRegexp(verifParam("fieldsRegexp"))
}

// H_fixture: concrete differential (engine vs. native) on the repository's fixtures.
func H_fixture() {
	verifConfigFromParams()
	line := verifLine("L0")
	out, err := RedactMongoLog(line)
	if err != nil {
		verifEmit("ERR")
		return
	}
	b, merr := MarshalOrdered(out)
	if merr != nil {
		verifEmit("MERR")
		return
	}
	verifEmit(string(b))
}
