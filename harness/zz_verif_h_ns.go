//go:build verif

package main

import (
	"crypto/sha256"
	"fmt"
	"strings"
)

func init() {
	verifHarnesses["H_c12"] = H_c12
	verifHarnesses["H_c13"] = H_c13
}

// verifPseudoName: the pseudonym function as the documentation states it: a leading '$'
// is ignored, dotted names are mapped component by component, each component becomes
// '<replacement>_<first 8 bytes of its SHA-256 in hex>'.
func verifPseudoName(name, repl string) string {
	t := strings.TrimLeft(name, "$")
	out := ""
	for i, p := range strings.Split(t, ".") {
		if i > 0 {
			out += "."
		}
		h := sha256.Sum256([]byte(p))
		out += fmt.Sprintf("%s_%x", repl, h[:8])
	}
	return out
}

func verifIsNsClass(c string) bool {
	return c == "DB" || c == "COLL" || c == "~DB+COLL"
}

// verifNsForm: every namespace-bearing leaf equals the pseudonym of its input.
func verifNsForm(a, b *verifNode, cls map[string]string, repl string) {
	if a.kind != b.kind {
		return
	}
	switch a.kind {
	case vObj, vArr:
		if len(a.kids) != len(b.kids) {
			return
		}
		for i := range a.kids {
			verifNsForm(a.kids[i], b.kids[i], cls, repl)
		}
		return
	}
	if verifIsNsClass(cls[a.path]) && a.kind == vStr {
		verifAssert(b.s == verifPseudoName(a.s, repl), "pseudonym@"+a.path)
	}
}

// verifConfined: positions that bear no namespace are the same with the flag on and off.
func verifConfined(on, off *verifNode, cls map[string]string) {
	if on.kind != off.kind {
		verifAssert(false, "confined-kind@"+on.path)
		return
	}
	switch on.kind {
	case vObj, vArr:
		if len(on.kids) != len(off.kids) {
			verifAssert(false, "confined-members@"+on.path)
			return
		}
		for i := range on.kids {
			if on.kind == vObj {
				verifAssert(on.keys[i] == off.keys[i], "confined-key@"+on.kids[i].path)
			}
			verifConfined(on.kids[i], off.kids[i], cls)
		}
		return
	}
	if !verifIsNsClass(cls[on.path]) {
		verifLeafEqual(on, off, "confined@"+on.path)
	}
}

// H_c12: namespace pseudonymisation is complete, has the documented form, and is confined.
func H_c12() {
	verifConfigSym()
	SetRedactNamespaces(true)
	// the value-redaction switches are exercised by C01-C05; fixed here to bound the paths
	SetRedactNumbers(false)
	SetRedactBooleans(false)
	SetRedactIPs(false)
	for _, cl := range []string{"G", "DB"} {
		for _, g := range verifHoles("L0", cl) {
			verifAssume(!strings.Contains(g, "."))
			verifAssume(!strings.HasPrefix(g, "$"))
		}
	}
	// the operation's own collection (first COLL hole) is arbitrary: dots ('system.profile')
	// and a leading '$' ('$cmd') within the engine's split bounds; foreign collections are simple names
	for i, g := range verifHoles("L0", "COLL") {
		if i > 0 {
			verifAssume(!strings.Contains(g, "."))
			verifAssume(!strings.HasPrefix(g, "$"))
		}
	}
	repl := verifString("replacement")
	if verifParam("fieldNames") == "sym" {
		// with --redactFieldNames given as well (arbitrary prefix): same claims, both runs
		SetEagerRedactionPaths([]string{verifString("eagerPrefix")})
		for _, g := range verifHoles("L0", "G") {
			verifAssume(g != "")
		}
	}
	r := verifRunTree("L0")
	if r == nil {
		return
	}
	cls := verifClassMap("L0", "leaf")
	for _, cl := range []string{"DB", "COLL"} {
		for i, n := range verifHoles("L0", cl) {
			verifAssume(n != "")
			verifAssert(!verifLeaks(r.text, n), "name-in-clear:"+cl+verifItoa(i))
		}
	}
	verifNsForm(r.in, r.out, cls, repl)
	// confinement: the same line with the flag off
	SetRedactNamespaces(false)
	out0, err := RedactMongoLog(verifLine("L0"))
	if err != nil {
		verifAssert(false, "flag-off-run")
		return
	}
	verifConfined(r.out, verifTreeOf(out0, "", nil), cls)
}

// H_c13: the pseudonym function itself.
func H_c13() {
	repl := verifString("replacement")
	SetRedactedString(repl)
	// "depends only on the name component and the replacement prefix": every other option of the
	// run is arbitrary (value switches, namespace / field-name mode, encrypt mode with any key)
	SetRedactNumbers(verifBool("redactNumbers"))
	SetRedactBooleans(verifBool("redactBooleans"))
	SetRedactIPs(verifBool("redactIPs"))
	SetRedactNamespaces(verifBool("redactNamespaces"))
	if verifBool("fieldNameMode") {
		SetEagerRedactionPaths([]string{verifString("eagerPrefix")})
	}
	if verifBool("encryptMode") {
		SetEncryptionKey(verifKey())
		SetShouldEncrypt(true)
	}
	name := verifString("name")
	got := HashName(name)
	verifEmit(got)
	verifReach("emitted")
	// form, component-wise mapping, leading '$' ignored, all 8 hash bytes used
	verifAssert(got == verifPseudoName(name, repl), "documented-form")
	// independent of the side table and of earlier calls
	other := verifString("other")
	RedactedFieldMapping = map[string]string{}
	RedactedFieldMapping[name] = verifString("junk1")
	RedactedFieldMapping[other] = verifString("junk2")
	HashName(other)
	again := HashName(name)
	verifEmit(again)
	verifAssert(again == got, "stable-across-calls")
	// '$' prefix does not matter
	verifAssert(HashName("$"+name) == got, "dollar-ignored")
	// relative injectivity: equal pseudonyms of dot-free names imply equal 8-byte digests
	if !strings.Contains(name, ".") && !strings.Contains(other, ".") && !strings.HasPrefix(name, "$") && !strings.HasPrefix(other, "$") {
		ha, hb := sha256.Sum256([]byte(name)), sha256.Sum256([]byte(other))
		var d byte
		for i := 0; i < 8; i++ {
			d |= ha[i] ^ hb[i]
		}
		if d != 0 {
			verifAssert(HashName(other) != got, "injective-in-digest")
		}
	}
}
