//go:build verif

package main

func init() {
	verifHarnesses["H_c18"] = H_c18
}

// H_c18: the real main() with every flag value, argument count, stdin mode and
// environment symbolic (cobra / pflag are stubbed by the executor; natively this harness
// is not run - counterexamples are replayed through the built CLI instead).
func H_c18() {
	main()
}
