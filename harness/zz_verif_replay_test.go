//go:build verif

package main

import (
	"encoding/json"
	"os"
	"testing"
)

// TestVerifReplay runs a batch of concrete harness cases ($VERIF_BATCH) on the real
// build and writes their outcomes to $VERIF_OUT.
func TestVerifReplay(t *testing.T) {
	in := os.Getenv("VERIF_BATCH")
	if in == "" {
		t.Skip("no batch")
	}
	b, err := os.ReadFile(in)
	if err != nil {
		t.Fatal(err)
	}
	var cases []verifCase
	if err := json.Unmarshal(b, &cases); err != nil {
		t.Fatal(err)
	}
	out := make([]verifOutcome, len(cases))
	for i, c := range cases {
		out[i] = verifRunCase(c)
	}
	ob, _ := json.Marshal(out)
	if err := os.WriteFile(os.Getenv("VERIF_OUT"), ob, 0644); err != nil {
		t.Fatal(err)
	}
}
