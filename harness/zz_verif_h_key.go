//go:build verif

package main

import "bytes"

func init() {
	verifHarnesses["H_c11"] = H_c11
	verifHarnesses["H_c11_rw"] = H_c11_rw
}

// H_c11: up to three consecutive runs of the real redact command over one file system
// (symbolic flags; evaluated by the executor's C11 post-processing; not replayed in-process).
func H_c11() {
	main()
	main()
	main()
}

// H_c11_rw: a generated key, stored by WriteKeyToFile, reads back as the same key.
func H_c11_rw() {
	key, err := GenerateKey()
	verifAssume(err == nil)
	verifAssert(len(key) == 64, "generated-64-bytes")
	path := verifTempFile("newkey", "")
	werr := WriteKeyToFile(path, key)
	verifAssert(werr == nil, "stored")
	back, rerr := ReadKeyFromFile(path)
	verifReach("emitted")
	verifAssert(rerr == nil, "reads-back")
	verifAssert(rerr == nil && bytes.Equal(back, key), "same-key")
	// wrong sizes are refused on both sides
	verifAssert(WriteKeyToFile(path, key[:63]) != nil, "short-key-not-stored")
}
