#!/usr/bin/env python3
"""Self-test of the checks against seeded breaking changes (/verif/seeded/<id>-mN).

For each seed, in a scratch git worktree of /repo (outside /repo and /verif, removed afterwards):
  1. the patch applies, the tree compiles and the repository's own test suite passes;
  2. the seed's demonstration fails with the patch and passes without it;
  3. the property's check (quick tier), run against the patched worktree, reports a VIOLATION,
     and reports none on the unpatched worktree (that is what the registered commands do on /repo).
Results are written to <seed>/result.json. Usage: seedcheck.py [--no-check] [--props C01,C02] [seed ...]
"""
import json, os, subprocess, sys, shutil, time, re

VERIF = os.path.dirname(os.path.dirname(os.path.abspath(__file__)))
REPO = "/repo"
GO124 = "/root/go/pkg/mod/golang.org/toolchain@v0.0.1-go1.24.3.linux-amd64/bin"
ENV = dict(os.environ, GOFLAGS="-mod=mod", GOPROXY="off", PATH=GO124 + ":" + os.environ["PATH"], GOTOOLCHAIN="local")

def sh(cmd, cwd=None, timeout=3600, env=None):
    p = subprocess.run(cmd, shell=True, cwd=cwd, env=env or ENV, stdout=subprocess.PIPE, stderr=subprocess.STDOUT, timeout=timeout)
    return p.returncode, p.stdout.decode(errors="replace")

def run_demo(wt, seed, meta):
    sd = os.path.join(VERIF, "seeded", seed)
    m = seed.split("-")[1]
    out = os.path.join(wt, "out", m)
    os.makedirs(out, exist_ok=True)
    for f in os.listdir(sd):
        if f not in ("result.json",):
            shutil.copy(os.path.join(sd, f), out)
    open(os.path.join(wt, "out", "go.mod"), "w").write("module scratchout\n")
    cmd = meta["demo_cmd"]
    cmd = re.sub(r"/tmp/wt/C\d+", wt, cmd)
    rc, o = sh(cmd + " </dev/null", cwd=wt, timeout=1200)
    sh("rm -f src/zz_demo_test.go src/zz_*demo*_test.go", cwd=wt)
    return rc, o[-1500:]

def main():
    args = [a for a in sys.argv[1:] if not a.startswith("--")]
    no_check = "--no-check" in sys.argv
    props = None
    for a in sys.argv[1:]:
        if a.startswith("--props="):
            props = a.split("=")[1].split(",")
    seeds = args or sorted(os.listdir(os.path.join(VERIF, "seeded")))
    for seed in seeds:
        sd = os.path.join(VERIF, "seeded", seed)
        if not os.path.isdir(sd) or not os.path.exists(os.path.join(sd, "meta.json")):
            continue
        meta = json.load(open(os.path.join(sd, "meta.json")))
        prop = meta.get("property", seed.split("-")[0])
        if props and prop not in props:
            continue
        if "--skip-detected" in sys.argv and os.path.exists(os.path.join(sd, "result.json")):
            try:
                if json.load(open(os.path.join(sd, "result.json"))).get("detected"):
                    continue
            except Exception:
                pass
        res = {"seed": seed, "property": prop, "repo_head": sh("git rev-parse --short HEAD", cwd=REPO)[1].strip(), "at": time.strftime("%Y-%m-%d %H:%M:%S")}
        wt = "/tmp/seedwt/" + seed
        sh("git worktree remove --force " + wt, cwd=REPO)
        shutil.rmtree(wt, ignore_errors=True)
        os.makedirs("/tmp/seedwt", exist_ok=True)
        rc, o = sh("git worktree add -q --detach %s HEAD" % wt, cwd=REPO)
        try:
            # demo on the unpatched tree
            rc0, o0 = run_demo(wt, seed, meta)
            res["demo_without_patch"] = "pass" if rc0 == 0 else "FAIL rc=%d: %s" % (rc0, o0[-400:])
            rc, o = sh("git apply --3way %s/patch.diff" % sd, cwd=wt)
            if rc != 0:
                rc, o = sh("git apply %s/patch.diff" % sd, cwd=wt)
            res["patch_applies"] = rc == 0
            if rc != 0:
                res["apply_error"] = o[-600:]
                json.dump(res, open(os.path.join(sd, "result.json"), "w"), indent=1)
                print(seed, "PATCH DOES NOT APPLY")
                continue
            sh("git reset -q", cwd=wt)
            rc, o = sh("go test -vet=off -count=1 ./...", cwd=wt)
            res["suite_with_patch"] = "pass" if rc == 0 else "FAIL: " + o[-600:]
            rc1, o1 = run_demo(wt, seed, meta)
            res["demo_with_patch"] = "fails (as intended)" if rc1 != 0 else "PASSES (seed has no effect)"
            res["confirmed"] = rc == 0 and rc0 == 0 and rc1 != 0
            if not no_check:
                shutil.rmtree(os.path.join(wt, "out"), ignore_errors=True)
                outdir = "/tmp/seedwt/out-" + seed
                shutil.rmtree(outdir, ignore_errors=True)
                os.makedirs(outdir)
                t0 = time.time()
                env = dict(os.environ, GOSYM_REPO=wt, GOSYM_OUT=outdir)
                try:
                    rc, o = sh("%s/bin/gosym check %s --tier quick" % (VERIF, prop), cwd=VERIF, timeout=int(os.environ.get("SEEDCHECK_TIMEOUT", "2400")), env=env)
                except subprocess.TimeoutExpired:
                    sh("pkill -f 'gosym check %s'" % prop)
                    rc, o = 124, "check timed out"
                viol = [l for l in o.splitlines() if l.startswith("VIOLATION")]
                res["check_exit"] = rc
                res["check_wall_s"] = round(time.time() - t0, 1)
                res["check_violations"] = [re.sub(r"replay=\S*/replays/", "replay=", v) for v in viol][:12]
                res["check_summary"] = [l for l in o.splitlines() if "tier=" in l][-1:] 
                res["detected"] = rc == 1 and len(viol) > 0
                res["mismatch"] = [l[:300] for l in o.splitlines() if "ENGINE-MISMATCH" in l][:3]
                shutil.rmtree(outdir, ignore_errors=True)
            json.dump(res, open(os.path.join(sd, "result.json"), "w"), indent=1)
            print(seed, "confirmed=%s" % res.get("confirmed"), "detected=%s" % res.get("detected"), res.get("check_wall_s"), (res.get("check_violations") or [""])[0][:120])
        finally:
            sh("git worktree remove --force " + wt, cwd=REPO)
            shutil.rmtree(wt, ignore_errors=True)

main()
