#!/usr/bin/env python3
"""Writes the table of DESIGN.md section 0.7 from seeded/*/result.json and meta.json."""
import json, os, re
here = os.path.dirname(os.path.dirname(os.path.abspath(__file__)))
rows = []
for d in sorted(os.listdir(os.path.join(here, "seeded"))):
    sd = os.path.join(here, "seeded", d)
    if not os.path.exists(os.path.join(sd, "meta.json")):
        continue
    meta = json.load(open(os.path.join(sd, "meta.json")))
    res = json.load(open(os.path.join(sd, "result.json"))) if os.path.exists(os.path.join(sd, "result.json")) else {}
    needs = re.sub(r"\s+", " ", meta.get("needs", meta.get("summary", "")))[:150].replace("|", "/")
    if "detected" not in res:
        verdict = "not run"
    elif res["detected"]:
        v = (res.get("check_violations") or [""])[0]
        m = re.search(r"replay=\S*?([^/]+)\.json", v)
        verdict = "caught (%s; %ss)" % (m.group(1)[:60] if m else "violation", res.get("check_wall_s"))
    else:
        verdict = "MISSED (%s)" % (res.get("miss_reason") or (res.get("check_summary") or [""])[0][-120:])
    other = res.get("also_caught_by", "")
    rows.append("| %s | %s | %s | %s | %s |" % (d, "yes" if res.get("confirmed") else "?", needs, verdict.replace("|", "/"), other))
table = "| change | confirmed (suite passes, demo fails with / passes without) | needs | property's quick check | notes |\n|---|---|---|---|---|\n" + "\n".join(rows)
p = os.path.join(here, "DESIGN.md")
s = open(p).read()
s = re.sub(r"<!-- SEEDTABLE-BEGIN -->.*?<!-- SEEDTABLE-END -->", "<!-- SEEDTABLE-BEGIN -->\n" + table.replace("\\", "\\\\") + "\n<!-- SEEDTABLE-END -->", s, flags=re.S)
open(p, "w").write(s)
print(len(rows), "rows")
