#!/usr/bin/env python3
# Regenerates /verif/MANIFEST.json from the table below (kept in one place so the file stays valid).
import json, os

TECH = "bounded symbolic execution of the real go/ssa (own engine gosym) + SMT (cvc5 1.0.3, z3 5.1); sat models replayed on the real build"
COMMON_NOTE = ("Trusted base: the gosym SSA interpreter (validated on every run: repository fixtures and solver models of sampled paths are run through "
  "engine and real build and must agree), the SMT solvers, contracts of stubbed libraries (encoding/json token stream and jstr serialiser, sha256 and regexp as "
  "uninterpreted symbols in verdict queries). Holds only within the stated bounds; unknown/timeouts are reported as inconclusive, never as success. ")

CHECKS = {
 "C01": dict(
   text="Every template of the grammar-derived corpus (engine/spec.go: query/update/expression/search operator contexts x value forms, 6 envelopes) is executed "
        "symbolically through RedactMongoLog+MarshalOrdered with symbolic literals, field names, namespace, flags and replacement text; for each feasible path and "
        "each sensitive hole the solver shows that no output segment depending on the literal can contain it (unsat), numbers/IP likewise under their flags. "
        "Bounded model checking of the real code: all literal contents and all flag combinations within the template bounds, not a sample.",
   note="Bounds: quick 325 / thorough 1283 templates, nesting <= 3 operators below the command key, arrays <= 2 elements, <= 5 secrets per line, field names outside the "
        "operator vocabulary (class G). Assumes a secret is not a substring of text that does not depend on it; secrets non-empty, not starting with '$'. Not covered here: "
        "encrypt mode (see C10), selective mode (C14), operators absent from the grammar, the CLI flag wiring (C18).",
   ref="6/C01"),
}

NOT_YET = {
}

def main():
    here = os.path.dirname(os.path.dirname(os.path.abspath(__file__)))
    props = [json.loads(l)["id"] for l in open(os.path.join(here, "properties.jsonl"))]
    checks = []
    for pid in props:
        if pid not in CHECKS: continue
        c = CHECKS[pid]
        checks.append({
          "property_id": pid,
          "quick_cmd": "./check %s quick" % pid,
          "thorough_cmd": "./check %s thorough" % pid,
          "evidence_file": "/verif/evidence/%s.json" % pid,
          "replay_cmd_template": "bin/gosym replay {path}",
          "engine": "gosym",
          "level_claimed": {"category": "model_checking", "text": c["text"], "design_ref": c["ref"]},
          "level_note": COMMON_NOTE + c["note"],
          "technique": TECH,
        })
    na = []
    for pid in props:
        if pid in CHECKS: continue
        na.append({"property_id": pid, "reason": NOT_YET.get(pid, "check not built yet in this session (work in progress; see DESIGN.md section 6 for the plan)")})
    m = {
      "version": 1,
      "setup_cmd": "./setup.sh",
      "hooks": {
        "guard": "verif",
        "enable": "harness files under /verif/harness (//go:build verif) are injected into package main through go/packages Overlay (symbolic runs) and `go test -tags verif -overlay` (replays); nothing guarded is committed to /repo",
        "baseline_off_cmd": "cd /repo && GOFLAGS=-mod=mod GOPROXY=off go test -vet=off -count=1 ./...",
        "source_commits": [],
        "add_only": True
      },
      "engines": [{"name": "gosym", "path": "/verif/engine", "serves_properties": sorted(CHECKS),
                   "kind_free_text": "bounded symbolic executor for go/ssa (own code): branches and assertions decided by SMT solvers, counterexamples replayed on the real build"}],
      "checks": checks,
      "not_applicable": na,
      "notes": "fix: commits in /repo are listed in known_findings.json (fixed entries). Checks print KNOWN-FINDING lines for listed unrepaired defects and VIOLATION lines only for unlisted, replay-confirmed ones."
    }
    json.dump(m, open(os.path.join(here, "MANIFEST.json"), "w"), indent=1)
    print("wrote MANIFEST.json with", len(checks), "checks,", len(na), "not_applicable")

main()
