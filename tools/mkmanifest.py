#!/usr/bin/env python3
# Regenerates /verif/MANIFEST.json from the table below (kept in one place so the file stays valid).
import json, os

TECH = "bounded symbolic execution of the real go/ssa (own engine gosym) + SMT (cvc5 1.0.3, z3 5.1); sat models replayed on the real build"
COMMON_NOTE = ("Trusted base: the gosym SSA interpreter (validated on every run: repository fixtures and solver models of sampled paths are run through "
  "engine and real build and must agree), the SMT solvers, contracts of stubbed libraries (encoding/json token stream and jstr serialiser, sha256 and regexp as "
  "uninterpreted symbols in verdict queries). Pure standard-library helpers without a dedicated model (strings.Cut, strconv.Atoi, hex.DecodeString, ...) are uninterpreted functions of their arguments "
  "(over-approximation; a counterexample is refined against the native function and replayed before it is reported). Holds only within the stated bounds; unknown/timeouts are reported as inconclusive, never as success. ")

CHECKS = {
 "C01": dict(
   text="Every template of the grammar-derived corpus (engine/spec.go: query/update/expression/search operator contexts x value forms, 6 envelopes) is executed "
        "symbolically through RedactMongoLog+MarshalOrdered with symbolic literals, field names, namespace, flags and replacement text; for each feasible path and "
        "each sensitive hole the solver shows that no output segment depending on the literal can contain it (unsat), numbers/IP likewise under their flags. "
        "Bounded model checking of the real code: all literal contents and all flag combinations within the template bounds, not a sample.",
   note="Bounds: quick 325 / thorough 1283 templates, nesting <= 3 operators below the command key, arrays <= 2 elements plus wide arrays of 5 / 17 / 33 elements (numbers with two string literals; quick: 17) in $in, inserted documents and $expr, <= 5 secrets per line, field names outside the "
        "operator vocabulary (class G). Assumes a secret is not a substring of text that does not depend on it; secrets non-empty, not starting with '$'. Not covered here: "
        "encrypt mode (see C10), selective mode (C14), operators absent from the grammar, the CLI flag wiring (C18).",
   ref="6/C01"),
 "C02": dict(
   text="Self-composition: every corpus template is bound to two lines that share all non-sensitive holes; the real redactor+serialiser is executed on both and the solver "
        "shows the two emitted ropes equal for all pairs of literal assignments that keep the lexical class (unsat of out != out').",
   note="Bounds: corpus as C01; quick tier additionally assumes non-empty literals (thorough lets either be empty). Class = leading-'$' status and the real IsEmail on both values; "
        "numbers/booleans/IP vary only under their flag. Outside: encrypt, selective and field-name modes.",
   ref="6/C02"),
 "C03": dict(
   text="The input line is parsed by an independent ordered parser written in the harness, the real RedactMongoLog/MarshalOrdered run on the same symbolic token stream, and the "
        "solver shows for every feasible path: same node kinds, same keys in the same order, same array lengths, and emitted text == reference serialisation of the result tree.",
   note="Bounds: C01 corpus plus odd-shape corpus (nulls, empty/nested arrays, unexpected value kinds under operators and under arbitrary keys of class F that may collide with the "
        "operator vocabulary), no duplicate sibling keys (assumed), --redactFieldNames excluded. The JSON tokenizer itself is behind the Decoder contract (a line is its token stream).",
   ref="6/C03"),
 "C04": dict(
   text="As C03, with the zone map written from the property text: every leaf outside the zones enabled by the (symbolic) flags, and every key, is shown equal to the input "
        "(string contents, number texts, booleans) on every feasible path.",
   note="Bounds: corpus + odd-shape corpus as C03; number texts are json.Number strings passed through by contract (UseNumber is observed: the decoder stub returns float64 without it).",
   ref="6/C04"),
 "C05": dict(
   text="Per sensitive leaf and literal class the solver shows the output leaf equals the class placeholder ($date/$oid/$binary constants, e-mail placeholder for e-mail shaped input, "
        "the symbolic --replacement text otherwise, 0 / false under the number / boolean flags) and subType is kept; validity of the constants (ISO instant, 24 hex, base64) is decided on the constants read from the SSA.",
   note="Bounds: corpus as C01; quick tier assumes non-empty literals. 'E-mail shaped' = WHATWG regexp, length 3..254 (harness spec), identified with the tool's classifier only when the pattern texts are equal.",
   ref="6/C05"),
 "C12": dict(
   text="With the flag on, every namespace-bearing leaf is shown equal to the documented pseudonym computed independently in the harness (component-wise SHA-256 prefix, same uninterpreted hash symbols), "
        "no output segment depends on a database/collection name outside the hash, and a second run with the flag off is shown equal at every other position.",
   note="Bounds: nsCorpus (all declared verbs, 6 envelopes, lines without command document, other components, $lookup/$graphLookup/$unionWith/$merge/$out string and document forms, nested sub-pipelines); "
        "main collection name with <= 2 dots / leading '$'; number/boolean/IP switches fixed off. Two known findings are listed (string short forms; stages nested in sub-pipelines).",
   ref="6/C12"),
 "C13": dict(
   text="HashName is executed on a symbolic name and replacement text; the solver shows equality with the documented form for all names within the split bounds, independence from the side table and call order, "
        "'$' prefix irrelevance, and that equal pseudonyms of dot-free names force equal 8-byte digests (injectivity relative to the hash, all 8 bytes used).",
   note="Bounds: <= 2 dots, <= 2 leading '$'; every other option of the run (value switches, namespace / field-name mode, encrypt mode with an arbitrary key) is symbolic, so a dependence of the pseudonym on any of them is a counterexample; hash.Hash / hmac digests are uninterpreted functions of (algorithm, key, message). Outside: collision-freeness of truncated SHA-256 itself; cross-process stability rests on HashName reaching no clock/random/environment call (such a call aborts the path as unmodelled => inconclusive).",
   ref="6/C13"),
 "C14": dict(
   text="Selective mode with a concrete regexp from a family; field names are symbolic and 'name matches R' is an uninterpreted predicate, so both outcomes are explored for every name on the path. "
        "For each literal: some key on the path matches => class placeholder; none matches => leaf equal to input.",
   note="Bounds: non-search corpus templates x 3 regexps (quick: rotating one per template). No obligation below dotted keys or next to a '$field' operand (not settled by the property text). Atlas Search stages excluded. History independence: one two-line job (dotted key / nested document with colliding joined paths) compares each line alone in a fresh process state with both lines in one run, both orders (H_c06_local, selective mode).",
   ref="6/C14"),
 "C15": dict(
   text="Field-name mode with a symbolic configured prefix (solver explores equal / prefix / unrelated): when active every user key in the positions the property names equals the documented pseudonym, no such name "
        "remains in any output segment, sibling counts/order are kept and values equal the flag-off run; when inactive the whole output equals the flag-off run. "
        "Plan summary: lines whose planSummary names the filter's fields (IXSCAN single / compound / OR / dotted / with _id / EXPRESS_IXSCAN, COUNT_SCAN, DISTINCT_SCAN, COLLSCAN, IDHACK) are run with the names as symbolic strings over [A-Za-z0-9_]+ of any length; "
        "the real regexp scan (leftmost-first matcher over constants and class-constrained atoms), Split / TrimSpace / Replace run on the rope and the solver shows the emitted summary equals the input with each key replaced by the pseudonym the same name gets in the filter.",
   note="Bounds: find/update/delete/insert/findAndModify/aggregate templates of the corpus, single-component names. Sibling-count obligations whose only models need a SHA-256 prefix collision are reported as not reproduced (collision-freeness is outside). "
        "A spread of the corpus and all plan-summary jobs also run with --redactNamespaces symbolic (both flags together). Plan-summary bounds: index-key names are non-empty words over [A-Za-z0-9_]; a regexp step whose outcome would depend on a name's content aborts the path as inconclusive; "
        "with a text-wide ReplaceAll in the code, occurrences of a name inside constants / other names / pseudonyms are found by solver-decided case splits (at most one occurrence per foreign stretch explored).",
   ref="6/C15"),
 "C19": dict(
   text="The emitted rope of the first pass is re-tokenised (decoder contract) and fed through the real redactor again with the same symbolic flags; the solver shows second output == first output on every path.",
   note="Bounds: corpus + odd-shape corpus; quick assumes non-empty literals; replacement text not e-mail shaped and not starting with '$'; namespaces / field-name pseudonymisation off (as the property states).",
   ref="6/C19"),

 "C06": dict(
   text="processMongoLogStream / ProcessMongoLogFile / ProcessMongoLogFileFromReader are executed on a sequence of k lines whose kinds (symbolic command line, other-component line, blank, whitespace, non-JSON) are chosen by the solver; the write events must equal, in order, what each line yields on its own; "
        "all four channels and bar nil/present are compared; the pseudonym side table starts with an arbitrary entry and the option globals are shown unchanged (inductive step for logs of any length). "
        "Hidden state: pairs of lines are redacted alone, each from a freshly initialised program state (all package-level variables re-initialised), and then together in both orders, in placeholder / field-name / selective mode; every line must come out as it does alone.",
   note="Bounds: k = 2 (thorough 3), 3 line triples, 2 locality pairs (thorough 3). bufio.Scanner / gzip are contract stubs (line list; CRLF and final newline are ScanLines' documented behaviour; a .gz input may consist of two gzip members and Multistream(false) yields only the first). Real gzip, OS pipes/files are outside.",
   ref="6/C06"),
 "C07": dict(
   text="Every odd-shape template (unexpected value kinds under $date/$oid/$binary and under arbitrary keys colliding with the operator vocabulary, nulls, empty/nested arrays) is run through the stream loop in placeholder, field-name and selective mode; every implicit panic site "
        "(type assertion, index, nil dereference) on a feasible path is an obligation; malformed neighbours (11 kinds) must not stop the following ordinary line; an over-long line must yield an error and nothing of it.",
   note="Bounds: odd corpus (quick 60 / thorough 300+ templates) + 2 garbage jobs. Outside: encrypt mode, nesting deeper than the templates (stack exhaustion), byte-level tokenizer behaviour.",
   ref="6/C07"),
 "C08": dict(
   text="Fault positions are solver choices: the k-th Write fails (k=1..3), the read fails after 1..3 lines, bad gzip header, open error, read error inside gzip. Shown: a non-nil error is returned, no write is attempted after a failed one, and what was written is a prefix of whole expected lines.",
   note="Bounds: 3 object lines, 2 line pairs. Outside: short writes inside the OS, Close errors, byte-level gzip corruption (gzip reader's error reporting is its contract); the CLI's mapping of the error to exit status 1 is covered by C18's harness only structurally.",
   ref="6/C08"),
 "C09": dict(
   text="redactString in encrypt mode -> key file content as WriteKeyToFile stores it -> ReadKeyFromFile -> base64 decode -> Decrypt is executed with symbolic plaintext and key; the solver shows the result equals the plaintext. "
        "The same round trip is shown when the content is itself a ciphertext of an earlier run (value of a redacted line quoted again). The real encoding/base64 code is executed on symbolic bytes (lengths 0..6; thorough 0..13, reaching the decoder's 8- and 4-character fast paths) and shown to round-trip. 'Never a wrong plaintext' is shown in the SIV sense: whatever Decrypt accepts (another key, arbitrary bytes) re-encrypts to the given ciphertext.",
   note="tink AEAD, keyset handle and protobuf are uninterpreted functions with Dec(Enc(m))=m, len(Enc)=len(m)+16, Dec-ok => Enc(Dec(c))=c. NOT decided: that a different key / altered ciphertext is *rejected* (authenticity of AES-SIV is a cryptographic claim). The cobra wiring of `decrypt` is not executed.",
   ref="6/C09"),
 "C10": dict(
   text="Each template is run in placeholder and encrypt mode on the same symbolic line: every string leaf placeholder mode replaces must decrypt to the input leaf, every other position must be equal; a repeated run must be byte-identical; different / equal plaintexts give different / equal ciphertexts; "
        "with unusable key material (any length but 64) no literal may appear in any output segment.",
   note="Bounds: every third corpus template (thorough: all), replacement text fixed, non-empty literals. Same crypto contracts as C09.",
   ref="6/C10"),
 "C11": dict(
   text="The real main() is run three times in a row over one symbolic file system with --encrypt, file input and output and an arbitrary key path whose initial state the solver picks (absent / file with arbitrary content / directory / unreadable). "
        "Event-log obligations: absent => exactly one WriteFile(path, base64 of 64 fresh random bytes, 0600) before any processing, later runs load exactly that key and write nothing; existing => never written/removed, a run proceeds only if the content base64-decodes to 64 bytes and uses exactly those bytes; unusable => non-zero exit, no processing. A second job shows generate -> store -> read back returns the same key.",
   note="Processing calls are cut into events. Outside: quality of crypto/rand (distinct keys), umask/ACLs, concurrent runs. Violations of this check are engine-level (not replayed through the CLI).",
   ref="6/C11"),
 "C16": dict(
   text="DownloadClusterLogs runs against a fake endpoint that is harness code executed symbolically as the base transport; every answer (challenge or not, statuses, transport errors, cut bodies, unparsable descriptions) is a solver choice. On success the recorded requests must equal, in order, the cluster lookup and one download per host "
        "(ports stripped, given window, https://cloud.mongodb.com), each preceded by at most its unauthenticated twin; temp file i holds exactly body i. A main()-level job shows file i is redacted into <outputFile>.<i> and that the download is called with the flags / environment and the default seven-day window.",
   note="Bounds: 1..2 hosts (thorough 3). digest.Transport, connstring.Parse, net.SplitHostPort, json.Unmarshal are contract stubs (see evidence). The redaction of each file is ProcessMongoLogFile (C06).",
   ref="6/C16"),
 "C17": dict(
   text="Same harness: on every failing path of DownloadClusterLogs (any fault kind at any host) the set created-by-CreateTemp minus removed must be empty; the main()-level job shows that every way out of the redact command after a successful download (return, or exit from the per-file loop on unwritable output / count failure / redaction failure) has removed all downloaded files.",
   note="Bounds as C16; faults are solver choices. Outside: process killed by a signal, os.Remove failing.",
   ref="6/C17"),
 "C18": dict(
   text="The real main() and Run closure are executed with all 16 flag variables, the argument count, stdin mode and both environment variables symbolic (cobra/pflag stubbed at the binding boundary). For every path: reaching a processing call implies NOT must_reject(flags); an exit before it implies non-zero status, a stderr message, NOT must_accept(flags), and no file / key / network side effect before it. "
        "Option globals are shown equal to their flags when processing starts (flag wiring of C01). Counterexamples are replayed through the freshly built CLI.",
   note="The acceptance rule is written from the property text (engine/props_cli.go). Combinations the documentation does not settle (--encrypt with Atlas mode) are in neither set. Exits that depend on the environment (failed create, key file content) are not 'flags alone'.",
   ref="6/C18"),
 "C20": dict(
   text="Same harness as C16: no recorded request line / header (other than the digest response, whose hash is the only term allowed to depend on the private key), nothing written to stdout/stderr and no returned error message may depend on the private key outside the digest hash - a taint-style dependency check on the symbolic terms, which covers verbatim, URL-encoded and base64 forms; without a challenge no request carries any Authorization.",
   note="The digest library's own code is behind a contract (password only inside the hash); Basic-auth fallbacks, keys in error messages or URLs added by the repository's code are caught. Output files are not produced by the download code. Outside: a server echoing the secret, process memory.",
   ref="6/C20"),
}

NOT_YET = {
}

def main():
    here = os.path.dirname(os.path.dirname(os.path.abspath(__file__)))
    props = [json.loads(l)["id"] for l in open(os.path.join(here, "properties.jsonl"))]
    checks = []
    for pid in props:
        if pid not in CHECKS: continue
        c = CHECKS[pid]
        checks.append({
          "property_id": pid,
          "quick_cmd": "./check %s quick" % pid,
          "thorough_cmd": "./check %s thorough" % pid,
          "evidence_file": "/verif/evidence/%s.json" % pid,
          "replay_cmd_template": "bin/gosym replay {path}",
          "engine": "gosym",
          "level_claimed": {"category": "model_checking", "text": c["text"], "design_ref": c["ref"]},
          "level_note": COMMON_NOTE + c["note"],
          "technique": TECH,
        })
    na = []
    for pid in props:
        if pid in CHECKS: continue
        na.append({"property_id": pid, "reason": NOT_YET.get(pid, "check not built yet in this session (work in progress; see DESIGN.md section 6 for the plan)")})
    m = {
      "version": 1,
      "setup_cmd": "./setup.sh",
      "hooks": {
        "guard": "verif",
        "enable": "harness files under /verif/harness (//go:build verif) are injected into package main through go/packages Overlay (symbolic runs) and `go test -tags verif -overlay` (replays); nothing guarded is committed to /repo",
        "baseline_off_cmd": "cd /repo && GOFLAGS=-mod=mod GOPROXY=off go test -vet=off -count=1 ./...",
        "source_commits": [],
        "add_only": True
      },
      "engines": [{"name": "gosym", "path": "/verif/engine", "serves_properties": sorted(CHECKS),
                   "kind_free_text": "bounded symbolic executor for go/ssa (own code): branches and assertions decided by SMT solvers, counterexamples replayed on the real build"}],
      "checks": checks,
      "not_applicable": na,
      "notes": "fix: commits in /repo are listed in known_findings.json (fixed entries). Checks print KNOWN-FINDING lines for listed unrepaired defects and VIOLATION lines only for unlisted, replay-confirmed ones."
    }
    json.dump(m, open(os.path.join(here, "MANIFEST.json"), "w"), indent=1)
    print("wrote MANIFEST.json with", len(checks), "checks,", len(na), "not_applicable")

main()
