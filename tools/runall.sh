#!/bin/sh
# runs every registered quick check in turn (evidence is rewritten by each); prints one line per check
cd "$(dirname "$0")/.."
for id in ${*:-C01 C02 C03 C04 C05 C06 C07 C08 C09 C10 C11 C12 C13 C14 C15 C16 C17 C18 C19 C20}; do
  s=$(date +%s)
  ./check $id quick > /tmp/runall_$id.log 2>&1
  rc=$?
  echo "$id rc=$rc $(( $(date +%s) - s ))s $(grep -c '^VIOLATION' /tmp/runall_$id.log) violations; $(grep 'tier=' /tmp/runall_$id.log | tail -1 | cut -c1-220)"
done
