#!/bin/sh
# importseed.sh <id> <mN>: copy a sub-agent's deliverables from /tmp/sa/<id>/out/<mN> to seeded/<id>-<mN>
set -e
id=$1; m=$2
d=/verif/seeded/$id-$m
mkdir -p $d
cp /tmp/sa/$id/out/$m/patch.diff /tmp/sa/$id/out/$m/meta.json $d/
for f in /tmp/sa/$id/out/$m/*; do case "$f" in *patch.diff|*meta.json) ;; *) [ -f "$f" ] && cp "$f" $d/ ;; esac; done
ls $d
